// Command htsverif is the driver of the deterministic-simulation checks:
// instrument /repo → build the harness with -overlay → run worker processes
// → aggregate → verify the replay of a violation in a fresh process → write
// evidence. Exit 0: property held on everything explored; 1: VIOLATION; 2:
// build/infrastructure/nondeterminism problem (never a VIOLATION line).
package main

import (
	"bytes"
	"encoding/binary"
	"encoding/json"
	"flag"
	"fmt"
	"os"
	"os/exec"
	"path/filepath"
	"runtime"
	"sort"
	"strconv"
	"strings"
	"sync"
	"time"

	"htsverif/instrument"
)

var (
	verifDir = envOr("HTSV_VERIF", "/verif")
	repoDir  = envOr("HTS_SRC", "/repo")
	goBin    = envOr("HTSV_GO", "go1.26.8")
)

func envOr(k, d string) string {
	if v := os.Getenv(k); v != "" {
		return v
	}
	return d
}

func die(code int, format string, a ...interface{}) {
	fmt.Fprintf(os.Stderr, "htsverif: "+format+"\n", a...)
	os.Exit(code)
}

func goEnv() []string {
	env := os.Environ()
	env = append(env, "GOFLAGS=-mod=mod", "GOPROXY=off", "GOSUMDB=off", "GOTOOLCHAIN=local", "TZ=UTC", "GODEBUG=asynctimerchan=0")
	return env
}

type propInfo struct {
	Level  string
	Budget map[string]float64 // thorough time budget per tier in seconds (0: run-count limited)
}

var props = map[string]propInfo{
	"C01": {"exploration", map[string]float64{"thorough": 900}},
	"C02": {"exploration", map[string]float64{"thorough": 900}},
	"C03": {"exploration", map[string]float64{"thorough": 900}},
	"C05": {"exploration", map[string]float64{"thorough": 900}},
	"C08": {"exploration", map[string]float64{"thorough": 900}},
	"C09": {"fault_enumeration", map[string]float64{"thorough": 1200}},
	"C10": {"fault_enumeration", map[string]float64{"thorough": 1200}},
	"C11": {"exploration", map[string]float64{"thorough": 1200}},
	"C12": {"fault_enumeration", map[string]float64{"thorough": 900}},
	"C13": {"exploration", map[string]float64{"thorough": 900}},
	"C14": {"exploration", map[string]float64{"thorough": 900}},
	"C18": {"exploration", map[string]float64{"thorough": 900}},
}

// memLimitKB bounds the address space of the workers of crash-prone properties.
// distinctSchedules is the number of distinct schedule signatures over all
// runs of the current check (an interleaving-coverage measure for evidence).
var distinctSchedules int

var memLimitKB = map[string]int{"C11": 3 << 19, "C18": 4 << 20}

func main() {
	if len(os.Args) < 2 {
		die(2, "usage: htsverif check <id> [--tier quick|thorough] | replay <file> | build | selftest determinism")
	}
	switch os.Args[1] {
	case "check":
		fs := flag.NewFlagSet("check", flag.ExitOnError)
		tier := fs.String("tier", envOr("VERIF_TIER", "quick"), "quick or thorough")
		workers := fs.Int("workers", 0, "worker processes (default: NumCPU, max 16)")
		runs := fs.Int("runs", 0, "override the number of runs")
		budget := fs.Float64("budget", 0, "override the time budget in seconds")
		noEvidence := fs.Bool("no-evidence", false, "do not write the evidence file")
		if len(os.Args) < 3 {
			die(2, "check needs a property id")
		}
		id := os.Args[2]
		fs.Parse(os.Args[3:])
		os.Exit(check(id, *tier, *workers, *runs, *budget, !*noEvidence))
	case "replay":
		if len(os.Args) < 3 {
			die(2, "replay needs a file")
		}
		os.Exit(replay(os.Args[2]))
	case "resolve":
		if len(os.Args) < 3 {
			die(2, "resolve needs one or more replay files")
		}
		b := prepare()
		for _, f := range os.Args[2:] {
			resolveReplay(b, f)
		}
	case "build":
		b := prepare()
		fmt.Println("harness:", b.bin)
		fmt.Println("overlay:", filepath.Join(b.instrDir, "overlay.json"))
	case "selftest":
		os.Exit(selftest(os.Args[2:]))
	default:
		die(2, "unknown command %q", os.Args[1])
	}
}

type built struct {
	instrDir string
	bin      string
	stats    *instrument.Stats
}

// prepare instruments the current working tree of /repo (cached by source
// hash) and builds the harness test binary against it.
func prepare() *built {
	opts := instrument.Options{RepoDir: repoDir, ModuleDir: "/repo", SimrtDir: filepath.Join(verifDir, "simrt"), StmtPkgs: []string{"bgzf/cache", "+hts/bgzf"}}
	hash, err := instrument.SourceHash(opts)
	if err != nil {
		die(2, "hashing sources: %v", err)
	}
	cache := filepath.Join(verifDir, ".cache")
	dir := filepath.Join(cache, "instr-"+hash)
	if _, err := os.Stat(filepath.Join(dir, "overlay.json")); err != nil {
		tmp := fmt.Sprintf("%s.tmp%d", dir, os.Getpid())
		os.RemoveAll(tmp)
		opts.OutDir = tmp
		if _, err := instrument.Run(opts); err != nil {
			os.RemoveAll(tmp)
			die(2, "%v", err)
		}
		// paths inside overlay.json point into tmp: rewrite to the final dir
		ob, _ := os.ReadFile(filepath.Join(tmp, "overlay.json"))
		ob = bytes.ReplaceAll(ob, []byte(tmp), []byte(dir))
		os.WriteFile(filepath.Join(tmp, "overlay.json"), ob, 0o644)
		if err := os.Rename(tmp, dir); err != nil {
			os.RemoveAll(tmp) // somebody else was faster
		}
		pruneCache(cache, dir)
	}
	b := &built{instrDir: dir}
	sb, err := os.ReadFile(filepath.Join(dir, "instrument.json"))
	if err != nil {
		die(2, "%v", err)
	}
	b.stats = &instrument.Stats{}
	json.Unmarshal(sb, b.stats)

	// go.sum for the harness: the repository's plus our one dependency.
	hdir := filepath.Join(verifDir, "harness")
	sum, _ := os.ReadFile(filepath.Join("/repo", "go.sum"))
	extra, _ := os.ReadFile(filepath.Join(hdir, "go.sum.extra"))
	os.WriteFile(filepath.Join(hdir, "go.sum"), append(sum, extra...), 0o644)

	b.bin = filepath.Join(dir, "harness.test")
	cmd := exec.Command(goBin, "test", "-c", "-vet=off", "-overlay", filepath.Join(dir, "overlay.json"), "-o", b.bin+fmt.Sprintf(".%d", os.Getpid()), ".")
	cmd.Dir = hdir
	cmd.Env = goEnv()
	out, err := cmd.CombinedOutput()
	if err != nil {
		die(2, "building the harness against the instrumented tree failed:\n%s", out)
	}
	if err := os.Rename(b.bin+fmt.Sprintf(".%d", os.Getpid()), b.bin); err != nil {
		die(2, "%v", err)
	}
	return b
}

// pruneCache keeps the cache small: only the newest few instrumentations.
func pruneCache(cache, keep string) {
	ents, _ := os.ReadDir(cache)
	type e struct {
		p string
		t time.Time
	}
	var es []e
	for _, en := range ents {
		if !strings.HasPrefix(en.Name(), "instr-") {
			continue
		}
		p := filepath.Join(cache, en.Name())
		if p == keep {
			continue
		}
		fi, err := en.Info()
		if err != nil {
			continue
		}
		es = append(es, e{p, fi.ModTime()})
	}
	sort.Slice(es, func(i, j int) bool { return es[i].t.After(es[j].t) })
	for i, x := range es {
		if i >= 3 && time.Since(x.t) > 10*time.Minute {
			os.RemoveAll(x.p)
		}
	}
}

type knownFinding struct {
	ID       string   `json:"id"`
	Property string   `json:"property"`
	Status   string   `json:"status"`
	Kind     string   `json:"kind"`
	Contains []string `json:"class_contains"`
	What     string   `json:"what"`
	Commit   string   `json:"commit,omitempty"`
}

func loadKnown() []knownFinding {
	b, err := os.ReadFile(filepath.Join(verifDir, "known_findings.json"))
	if err != nil {
		return nil
	}
	var doc struct {
		Findings []knownFinding `json:"findings"`
	}
	if err := json.Unmarshal(b, &doc); err != nil {
		die(2, "known_findings.json: %v", err)
	}
	return doc.Findings
}

type workerResult struct {
	Stats     map[string]json.RawMessage `json:"stats"`
	Violation json.RawMessage            `json:"violation"`
	Collected []json.RawMessage          `json:"collected"`
	NextRun   int                        `json:"next_run"`
	Done      bool                       `json:"done"`
	Samples   []json.RawMessage          `json:"samples"`
	WallS     float64                    `json:"wall_s"`
	Error     string                     `json:"error"`
	ReplayOK  bool                       `json:"replay_ok"`
	ReplayMsg string                     `json:"replay_msg"`
	ReplaySig uint64                     `json:"replay_sig"`
}

func runWorker(b *built, job map[string]interface{}, jobPath string, timeout time.Duration) (*workerResult, string, error) {
	jb, _ := json.Marshal(job)
	if err := os.WriteFile(jobPath, jb, 0o644); err != nil {
		return nil, "", err
	}
	out := job["out"].(string)
	os.Remove(out)
	cmd := exec.Command(b.bin, "-test.run", "^TestWorker$", "-test.cpu", "1", "-test.timeout", "0")
	if lim := memLimitKB[fmt.Sprint(job["property"])]; lim > 0 {
		// decoders may try to allocate what a corrupt length field says: bound
		// the address space so that the runtime aborts that one process
		cmd = exec.Command("sh", "-c", fmt.Sprintf("ulimit -v %d; exec \"$0\" \"$@\"", lim), b.bin, "-test.run", "^TestWorker$", "-test.cpu", "1", "-test.timeout", "0")
	}
	cmd.Env = append(goEnv(), "HTSV_JOB="+jobPath, "GOMAXPROCS="+envOr("HTSV_GOMAXPROCS", "2"))
	var buf bytes.Buffer
	cmd.Stdout, cmd.Stderr = &buf, &buf
	if err := cmd.Start(); err != nil {
		return nil, "", err
	}
	done := make(chan error, 1)
	go func() { done <- cmd.Wait() }()
	var werr error
	select {
	case werr = <-done:
	case <-time.After(timeout):
		cmd.Process.Kill()
		<-done
		return nil, buf.String(), fmt.Errorf("worker exceeded the watchdog timeout of %v", timeout)
	}
	rb, rerr := os.ReadFile(out)
	if rerr != nil {
		return nil, buf.String(), fmt.Errorf("worker produced no result (%v): %v", werr, rerr)
	}
	var wr workerResult
	if err := json.Unmarshal(rb, &wr); err != nil {
		return nil, buf.String(), err
	}
	if wr.Error != "" {
		return &wr, buf.String(), fmt.Errorf("worker error: %s", wr.Error)
	}
	if werr != nil {
		return &wr, buf.String(), fmt.Errorf("worker failed: %v", werr)
	}
	return &wr, buf.String(), nil
}

// crashSignature extracts the Go runtime's fatal error from a worker's
// output ("" if the worker did not die of one).
func crashSignature(log string) string {
	for _, l := range strings.Split(log, "\n") {
		l = strings.TrimSpace(l)
		if strings.HasPrefix(l, "fatal error:") {
			return strings.TrimPrefix(l, "fatal error: ")
		}
		if strings.HasPrefix(l, "runtime: goroutine stack exceeds") {
			return "stack overflow"
		}
	}
	return ""
}

// unboundedGrowth tells an out-of-memory abort caused by a slice growing
// without bound (runtime.growslice in the aborting goroutine: a loop that
// appends without consuming its few-KiB input, i.e. a hang that happens to
// allocate) from one caused by a single allocation of a declared size
// (runtime.makeslice: "the decoder asks for more memory than the limit",
// which the property does not judge).
func unboundedGrowth(log string) bool {
	i := strings.Index(log, "fatal error:")
	if i < 0 {
		return false
	}
	// the first goroutine dump after the fatal error is the aborting one
	rest := log[i:]
	if j := strings.Index(rest, "\n\ngoroutine "); j >= 0 {
		rest = rest[j+2:]
		if k := strings.Index(rest, "\n\n"); k >= 0 {
			rest = rest[:k]
		}
	}
	return strings.Contains(rest, "runtime.growslice") && !strings.Contains(rest, "runtime.makeslice")
}

func crashFrames(log string) string {
	// the innermost library frames of the crashing goroutine, for the report
	var out []string
	for _, l := range strings.Split(log, "\n") {
		if strings.HasPrefix(l, "github.com/biogo/hts/") && !strings.Contains(l, "/simhook") {
			f := l
			if i := strings.Index(f, "("); i > 0 {
				f = f[:i]
			}
			if len(out) == 0 || out[len(out)-1] != f {
				out = append(out, f)
			}
			if len(out) >= 4 {
				break
			}
		}
	}
	return strings.Join(out, " <- ")
}

type aggStats struct {
	ints map[string]int64
	maps map[string]map[string]int64
}

func (a *aggStats) add(st map[string]json.RawMessage) {
	for k, raw := range st {
		var n int64
		if json.Unmarshal(raw, &n) == nil {
			a.ints[k] += n
			continue
		}
		var m map[string]int64
		if json.Unmarshal(raw, &m) == nil {
			if a.maps[k] == nil {
				a.maps[k] = map[string]int64{}
			}
			for kk, v := range m {
				a.maps[k][kk] += v
			}
		}
	}
}

func check(id, tier string, nworkers, runsOverride int, budgetOverride float64, writeEvidence bool) int {
	pi, ok := props[id]
	if !ok {
		die(2, "unknown property %s", id)
	}
	if tier != "quick" && tier != "thorough" {
		die(2, "unknown tier %q", tier)
	}
	seed := uint64(1)
	if s := os.Getenv("VERIF_SEED"); s != "" {
		v, err := strconv.ParseUint(s, 10, 64)
		if err != nil {
			die(2, "VERIF_SEED: %v", err)
		}
		seed = v
	}
	start := time.Now()
	b := prepare()
	buildS := time.Since(start).Seconds()
	if nworkers <= 0 {
		nworkers = runtime.NumCPU()
		if nworkers > 16 {
			nworkers = 16
		}
	}
	work := filepath.Join(verifDir, ".work", fmt.Sprintf("%s-%s-%d", id, tier, os.Getpid()))
	os.RemoveAll(work)
	if err := os.MkdirAll(work, 0o755); err != nil {
		die(2, "%v", err)
	}
	defer os.RemoveAll(work)

	budget := pi.Budget[tier]
	if s := os.Getenv("VERIF_BUDGET_S"); s != "" {
		if v, err := strconv.ParseFloat(s, 64); err == nil {
			budget = v
		}
	}
	if budgetOverride > 0 {
		budget = budgetOverride
	}
	known := loadKnown()
	var myKnown []knownFinding
	for _, k := range known {
		if k.Property == id {
			myKnown = append(myKnown, k)
		}
	}

	agg := &aggStats{ints: map[string]int64{}, maps: map[string]map[string]int64{}}
	var mu sync.Mutex
	var violation json.RawMessage
	var samples []json.RawMessage
	var infraErr error
	var infraLog string
	crashViolation := false
	collectedSeen := map[string]bool{}
	var wg sync.WaitGroup
	stop := make(chan struct{})
	var stopOnce sync.Once
	watchdog := time.Duration(budget*2+600) * time.Second
	for w := 0; w < nworkers; w++ {
		wg.Add(1)
		go func(w int) {
			defer wg.Done()
			from := w
			wstart := time.Now()
			for gen := 0; ; gen++ {
				select {
				case <-stop:
					return
				default:
				}
				remaining := budget
				if budget > 0 {
					remaining = budget - time.Since(wstart).Seconds()
					if remaining <= 0 {
						return
					}
				}
				job := map[string]interface{}{
					"property": id, "tier": tier, "seed": seed, "worker": w, "workers": nworkers, "from": from,
					"max_runs": runsOverride, "budget_s": remaining,
					"out":      filepath.Join(work, fmt.Sprintf("w%d.json", w)),
					"keys_out": filepath.Join(work, fmt.Sprintf("w%d.keys", w)),
					"known":    myKnown,
				}
				wr, log, err := runWorker(b, job, filepath.Join(work, fmt.Sprintf("job%d.json", w)), watchdog)
				mu.Lock()
				if wr != nil {
					for _, cr := range wr.Collected {
						var h struct {
							Class string `json:"class"`
							Msg   string `json:"msg"`
							Run   int    `json:"run"`
						}
						json.Unmarshal(cr, &h)
						if !collectedSeen[h.Class] {
							collectedSeen[h.Class] = true
							os.MkdirAll(filepath.Join(verifDir, "replays"), 0o755)
							path := filepath.Join(verifDir, "replays", fmt.Sprintf("%s-%d-%d.json", id, seed, h.Run))
							var pretty bytes.Buffer
							json.Indent(&pretty, cr, "", " ")
							os.WriteFile(path, pretty.Bytes(), 0o644)
							fmt.Printf("COLLECTED %s class=%s\n    %s\n", path, h.Class, firstLineOf(h.Msg))
						}
					}
				}
				if wr != nil && wr.Stats != nil {
					agg.add(wr.Stats)
					if len(samples) < 3 {
						samples = append(samples, wr.Samples...)
					}
				}
				if err != nil {
					sig := crashSignature(log)
					if unboundedGrowth(log) {
						sig = "unbounded growth (out of memory while appending)"
					}
					inb, ierr := os.ReadFile(job["out"].(string) + ".inflight")
					if sig != "" && ierr == nil {
						// account for the runs the worker finished before it died
						if cb, cerr := os.ReadFile(job["out"].(string) + ".ckpt"); cerr == nil {
							var ck workerResult
							if json.Unmarshal(cb, &ck) == nil && ck.Stats != nil {
								agg.add(ck.Stats)
							}
							os.Remove(job["out"].(string) + ".ckpt")
						}
						// the process died of a fatal runtime error while
						// executing a known run: that is an observation about
						// the library, not an infrastructure failure
						crun, _ := strconv.Atoi(strings.TrimSpace(string(inb)))
						class := "crash:" + sig + ":" + crashFrames(log)
						agg.ints["runs"]++
						if (strings.Contains(sig, "out of memory") || strings.Contains(sig, "cannot allocate")) && !unboundedGrowth(log) {
							if agg.maps["inconclusive"] == nil {
								agg.maps["inconclusive"] = map[string]int64{}
							}
							agg.maps["inconclusive"]["resource_limit"]++
							mu.Unlock()
							from = crun + nworkers
							continue
						}
						matched := false
						for _, k := range myKnown {
							if k.Status == "open" && (k.Kind == "" || k.Kind == "crash") {
								ok := true
								for _, c := range k.Contains {
									if !strings.Contains(class, c) {
										ok = false
									}
								}
								if ok {
									matched = true
									if agg.maps["known_findings_hit"] == nil {
										agg.maps["known_findings_hit"] = map[string]int64{}
									}
									agg.maps["known_findings_hit"][k.ID]++
								}
							}
						}
						if matched {
							mu.Unlock()
							from = crun + nworkers
							continue
						}
						if (strings.Contains(sig, "out of memory") || strings.Contains(sig, "cannot allocate")) && !unboundedGrowth(log) {
							// the decoder asked for more memory than the harness
							// limit: counted, not judged
							if agg.maps["inconclusive"] == nil {
								agg.maps["inconclusive"] = map[string]int64{}
							}
							agg.maps["inconclusive"]["resource_limit"]++
							mu.Unlock()
							from = crun + nworkers
							continue
						}
						// confirm in a fresh process before believing it
						rp := map[string]interface{}{"property": id, "tier": tier, "seed": seed, "run": crun, "regen": true,
							"kind": "crash", "class": class, "msg": "the process died of a fatal runtime error while executing this run: " + sig + " in " + crashFrames(log)}
						rpb, _ := json.Marshal(rp)
						mu.Unlock()
						rpath := filepath.Join(work, fmt.Sprintf("crash-w%d-%d.json", w, crun))
						os.WriteFile(rpath, rpb, 0o644)
						rjob := map[string]interface{}{"property": id, "tier": tier, "seed": seed, "replay": rpath, "out": filepath.Join(work, fmt.Sprintf("crashreplay%d.json", w))}
						_, rlog, rerr := runWorker(b, rjob, filepath.Join(work, fmt.Sprintf("crashjob%d.json", w)), watchdog)
						rsig := crashSignature(rlog)
						if unboundedGrowth(rlog) {
							rsig = "unbounded growth (out of memory while appending)"
						}
						mu.Lock()
						resource := func(s string) bool {
							return strings.Contains(s, "out of memory") || strings.Contains(s, "cannot allocate") || strings.Contains(s, "hang:")
						}
						switch {
						case rerr != nil && rsig == sig:
							if violation == nil {
								violation = rpb
								crashViolation = true
							}
							mu.Unlock()
							stopOnce.Do(func() { close(stop) })
							return
						case resource(sig) && (rerr == nil || resource(rsig)):
							// time/memory exhaustion that does not reproduce identically: not judged
							if agg.maps["inconclusive"] == nil {
								agg.maps["inconclusive"] = map[string]int64{}
							}
							agg.maps["inconclusive"]["resource_limit"]++
							mu.Unlock()
							from = crun + nworkers
							continue
						default:
							if infraErr == nil {
								infraErr = fmt.Errorf("run %d crashed the worker (%s) but replaying it in a fresh process gave %q (%v): the machinery is not deterministic here", crun, sig, rsig, rerr)
								infraLog = log
							}
							mu.Unlock()
							stopOnce.Do(func() { close(stop) })
							return
						}
					}
					if infraErr == nil {
						infraErr = err
						infraLog = log
					}
					mu.Unlock()
					stopOnce.Do(func() { close(stop) })
					return
				}
				if len(wr.Violation) > 0 && string(wr.Violation) != "null" {
					if violation == nil {
						violation = wr.Violation
					}
					mu.Unlock()
					stopOnce.Do(func() { close(stop) })
					return
				}
				mu.Unlock()
				if wr.Done {
					return
				}
				from = wr.NextRun
			}
		}(w)
	}
	wg.Wait()
	if infraErr != nil {
		fmt.Fprintln(os.Stderr, infraLog)
		die(2, "%s: %v", id, infraErr)
	}

	// distinct non-trivial cases: merge the workers' key sets
	keys := map[uint64]struct{}{}
	for w := 0; w < nworkers; w++ {
		kb, err := os.ReadFile(filepath.Join(work, fmt.Sprintf("w%d.keys", w)))
		if err != nil {
			continue
		}
		for i := 0; i+8 <= len(kb); i += 8 {
			keys[binary.LittleEndian.Uint64(kb[i:])] = struct{}{}
		}
	}

	skeys := map[uint64]struct{}{}
	for w := 0; w < nworkers; w++ {
		kb, err := os.ReadFile(filepath.Join(work, fmt.Sprintf("w%d.keys.sched", w)))
		if err != nil {
			continue
		}
		for i := 0; i+8 <= len(kb); i += 8 {
			skeys[binary.LittleEndian.Uint64(kb[i:])] = struct{}{}
		}
	}
	distinctSchedules = len(skeys)

	// regression corpus: replay files of earlier detections (fixed findings,
	// seeded changes) are re-executed against the current tree
	corpusN, corpusKnown, corpusBad := replayCorpus(b, id, tier, seed, work, myKnown)
	if agg.maps["corpus"] == nil {
		agg.maps["corpus"] = map[string]int64{}
	}
	agg.maps["corpus"]["replayed"] = int64(corpusN)
	agg.maps["corpus"]["known_finding"] = int64(corpusKnown)
	agg.maps["corpus"]["violations"] = int64(len(corpusBad))

	exit := 0
	var vline string
	nviol := 0
	if violation == nil && len(corpusBad) > 0 {
		nviol = len(corpusBad)
		for _, cb := range corpusBad {
			fmt.Printf("corpus replay %s: violation kind=%v class=%v\n%v\n", cb.path, cb.kind, cb.class, cb.msg)
		}
		vline = fmt.Sprintf("VIOLATION property=%s replay=%s", id, corpusBad[0].path)
		exit = 1
	}
	if violation != nil {
		nviol = 1
		os.MkdirAll(filepath.Join(verifDir, "replays"), 0o755)
		var rp struct {
			Run   int    `json:"run"`
			Kind  string `json:"kind"`
			Class string `json:"class"`
			Msg   string `json:"msg"`
		}
		json.Unmarshal(violation, &rp)
		path := filepath.Join(verifDir, "replays", fmt.Sprintf("%s-%d-%d.json", id, seed, rp.Run))
		var pretty bytes.Buffer
		json.Indent(&pretty, violation, "", " ") // no float64 round trip: signatures are 64-bit
		os.WriteFile(path, pretty.Bytes(), 0o644)
		// the replay must reproduce in a fresh process
		job := map[string]interface{}{"property": id, "tier": tier, "seed": seed, "replay": path, "out": filepath.Join(work, "replay.json")}
		wr, log, err := runWorker(b, job, filepath.Join(work, "replayjob.json"), watchdog)
		if crashViolation {
			// already confirmed in a fresh process when it was found; keep
			// the generated case in the file
			_ = log
			resolveReplay(b, path)
		} else if err != nil || wr == nil || !wr.ReplayOK {
			msg := ""
			if wr != nil {
				msg = wr.ReplayMsg
			}
			fmt.Fprintln(os.Stderr, log)
			die(2, "%s: a violation was found but its replay file %s does not reproduce it in a fresh process (%v %s); this is a defect of the machinery, not a finding", id, path, err, msg)
		}
		fmt.Printf("violation kind=%v class=%v\n%v\n", rp.Kind, rp.Class, rp.Msg)
		vline = fmt.Sprintf("VIOLATION property=%s replay=%s", id, path)
		exit = 1
	}

	wall := time.Since(start).Seconds()
	runs := agg.ints["runs"]
	for _, k := range myKnown {
		if k.Status == "open" {
			fmt.Printf("KNOWN-FINDING: property=%s %s [%s; hit %d times in this run]\n", id, k.What, k.ID, agg.maps["known_findings_hit"][k.ID])
		}
	}
	if writeEvidence {
		writeEvidenceFile(id, tier, seed, pi, b, agg, keys, samples, wall, buildS, nviol, nworkers, myKnown)
	}
	fmt.Printf("%s tier=%s seed=%d: %d runs, %d simulations, %d scheduler steps, %d distinct non-trivial, %.1fs (build %.1fs), violations=%d\n",
		id, tier, seed, runs, agg.ints["sims"], agg.ints["steps"], len(keys), wall, buildS, nviol)
	if vline != "" {
		fmt.Println(vline)
	}
	return exit
}

type corpusHit struct {
	path, kind, class, msg string
}

// replayCorpus re-executes every file of corpus/<id>/ in fresh worker
// processes (16 at a time). A violation that matches an open known finding
// is counted, any other is returned.
func replayCorpus(b *built, id, tier string, seed uint64, work string, known []knownFinding) (n, nKnown int, bad []corpusHit) {
	if os.Getenv("HTSV_NO_CORPUS") != "" {
		return 0, 0, nil
	}
	files, _ := filepath.Glob(filepath.Join(verifDir, "corpus", id, "*.json"))
	sort.Strings(files)
	var mu sync.Mutex
	var wg sync.WaitGroup
	sem := make(chan struct{}, 16)
	for i, f := range files {
		wg.Add(1)
		sem <- struct{}{}
		go func(i int, f string) {
			defer wg.Done()
			defer func() { <-sem }()
			rb, err := os.ReadFile(f)
			if err != nil {
				die(2, "%v", err)
			}
			var rp struct {
				Tier string `json:"tier"`
				Seed uint64 `json:"seed"`
			}
			json.Unmarshal(rb, &rp)
			if rp.Tier == "" {
				rp.Tier = tier
			}
			job := map[string]interface{}{"property": id, "tier": rp.Tier, "seed": rp.Seed, "replay": f, "out": filepath.Join(work, fmt.Sprintf("corpus%d.json", i))}
			wr, log, err := runWorker(b, job, filepath.Join(work, fmt.Sprintf("corpus%d.job", i)), 10*time.Minute)
			mu.Lock()
			defer mu.Unlock()
			n++
			if err != nil {
				if sig := crashSignature(log); sig != "" {
					if strings.Contains(sig, "out of memory") && !unboundedGrowth(log) {
						return // resource limit: not judged
					}
					bad = append(bad, corpusHit{f, "crash", "crash:" + sig, "the process died of a fatal runtime error: " + sig + " in " + crashFrames(log)})
					return
				}
				fmt.Fprintln(os.Stderr, log)
				die(2, "%s: corpus replay %s failed: %v", id, f, err)
			}
			if len(wr.Violation) == 0 || string(wr.Violation) == "null" {
				return
			}
			var v struct {
				Kind  string `json:"kind"`
				Class string `json:"class"`
				Msg   string `json:"msg"`
			}
			json.Unmarshal(wr.Violation, &v)
			for _, k := range known {
				if k.Status != "open" || (k.Kind != "" && k.Kind != v.Kind) {
					continue
				}
				all := true
				for _, c := range k.Contains {
					if !strings.Contains(v.Class, c) {
						all = false
					}
				}
				if all {
					nKnown++
					return
				}
			}
			bad = append(bad, corpusHit{f, v.Kind, v.Class, v.Msg})
		}(i, f)
	}
	wg.Wait()
	sort.Slice(bad, func(i, j int) bool { return bad[i].path < bad[j].path })
	return n, nKnown, bad
}

// resolveReplay stores the generated case inside a regenerating replay file
// (one that names only property, seed and run because the run killed its
// process), so that the file keeps its meaning when the generator changes.
func resolveReplay(b *built, path string) {
	rb, err := os.ReadFile(path)
	if err != nil {
		die(2, "%v", err)
	}
	var rp map[string]json.RawMessage
	if err := json.Unmarshal(rb, &rp); err != nil {
		die(2, "%s: %v", path, err)
	}
	if string(rp["regen"]) != "true" || (len(rp["case"]) > 0 && string(rp["case"]) != "null") {
		return
	}
	var hd struct {
		Property string `json:"property"`
		Tier     string `json:"tier"`
		Seed     uint64 `json:"seed"`
		Run      int    `json:"run"`
	}
	json.Unmarshal(rb, &hd)
	work := filepath.Join(verifDir, ".work", fmt.Sprintf("resolve-%d", os.Getpid()))
	os.MkdirAll(work, 0o755)
	defer os.RemoveAll(work)
	job := map[string]interface{}{"property": hd.Property, "tier": hd.Tier, "seed": hd.Seed, "dump_run": hd.Run, "out": filepath.Join(work, "dump.json")}
	wr, log, err := runWorker(b, job, filepath.Join(work, "dump.job"), 10*time.Minute)
	if err != nil || wr == nil || len(wr.Samples) != 1 {
		fmt.Fprintln(os.Stderr, log)
		die(2, "%s: cannot generate the case of run %d: %v", path, hd.Run, err)
	}
	rp["case"] = wr.Samples[0]
	out, _ := json.Marshal(rp)
	var pretty bytes.Buffer
	json.Indent(&pretty, out, "", " ")
	if err := os.WriteFile(path, pretty.Bytes(), 0o644); err != nil {
		die(2, "%v", err)
	}
	fmt.Printf("resolved %s (run %d)\n", path, hd.Run)
}

func firstLineOf(s string) string {
	if i := strings.Index(s, "\n"); i >= 0 {
		s = s[:i]
	}
	if len(s) > 300 {
		s = s[:300]
	}
	return s
}

func topN(m map[string]int64, n int) map[string]int64 {
	type kv struct {
		k string
		v int64
	}
	var kvs []kv
	for k, v := range m {
		kvs = append(kvs, kv{k, v})
	}
	sort.Slice(kvs, func(i, j int) bool { return kvs[i].v > kvs[j].v || kvs[i].v == kvs[j].v && kvs[i].k < kvs[j].k })
	out := map[string]int64{}
	for i, x := range kvs {
		if i >= n {
			break
		}
		out[x.k] = x.v
	}
	return out
}

func writeEvidenceFile(id, tier string, seed uint64, pi propInfo, b *built, agg *aggStats, keys map[uint64]struct{}, samples []json.RawMessage, wall, buildS float64, nviol, nworkers int, known []knownFinding) {
	rule := ""
	{
		// ask the harness for the rule text
		cmd := exec.Command(b.bin, "-test.run", "^TestRule$")
		cmd.Env = append(goEnv(), "HTSV_RULE="+id)
		out, _ := cmd.Output()
		for _, l := range strings.Split(string(out), "\n") {
			if strings.HasPrefix(l, "RULE: ") {
				rule = strings.TrimPrefix(l, "RULE: ")
			}
		}
	}
	// site coverage
	total := map[string]bool{}
	for _, s := range b.stats.Sites {
		if i := strings.LastIndex(s, "@"); i >= 0 {
			s = s[:i]
		}
		if strings.Contains(s, ":stmt") {
			continue
		}
		total[s] = true
	}
	hit := 0
	var never []string
	for s := range total {
		if agg.maps["sites"][s] > 0 || agg.maps["sites"]["go@"+s] > 0 {
			hit++
		} else {
			never = append(never, s)
		}
	}
	sort.Strings(never)
	runs := agg.ints["runs"]
	cov := map[string]interface{}{
		"evaluations":                      runs,
		"distinct_nontrivial":              len(keys),
		"rule":                             rule,
		"samples":                          samples,
		"simulations":                      agg.ints["sims"],
		"steps_total":                      agg.ints["steps"],
		"steps_per_run":                    float64(agg.ints["steps"]) / float64(max64(runs, 1)),
		"simulated_time_note":              "hts has no clocks or timers; logical time is the number of scheduler steps",
		"scheduling_decisions_with_choice": agg.ints["decisions"],
		"preemptive_switches":              agg.ints["preemptions"],
		"runs_per_hour":                    float64(runs) / wall * 3600,
		"nontrivial_runs":                  agg.ints["nontrivial"],
		"faults_fired":                     agg.maps["faults_fired"],
		"policies":                         agg.maps["policies"],
		"probes":                           agg.maps["probes"],
		"outcomes":                         agg.maps["outcomes"],
		"inconclusive":                     agg.maps["inconclusive"],
		"known_findings_hit":               agg.maps["known_findings_hit"],
		"regression_corpus":                agg.maps["corpus"],
		"extra":                            agg.maps["extra"],
		"crash_points":                     agg.ints["crash_points"],
		"site_coverage":                    map[string]interface{}{"hit": hit, "total": len(total), "never_hit": never, "note": "all instrumented synchronisation sites of the library (statement-level yields excluded); sites outside this property's code paths are expected in never_hit"},
		"switch_pairs":                     len(agg.maps["switch_pairs"]),
		"distinct_schedule_signatures":     distinctSchedules,
		"switch_pairs_top":                 topN(agg.maps["switch_pairs"], 12),
		"determinism_rechecks":             map[string]int64{"done": agg.ints["determinism_rechecks"], "mismatches": agg.ints["determinism_mismatches"]},
		"components": map[string]interface{}{
			"real": []string{"github.com/biogo/hts/... (all packages the property touches, instrumented at synchronisation points only)", "compress/gzip, compress/flate, bufio, bytes, hash/crc32 (standard library)"},
			"stub": []string{"goroutine scheduler (tape-driven)", "select case order", "map iteration order", "GOMAXPROCS", "disk: in-memory simulated file with delays, short reads and injected faults"},
		},
		"workers":         nworkers,
		"build_s":         buildS,
		"source_hash":     b.stats.Hash,
		"instrumentation": b.stats.Rules,
	}
	if len(samples) == 0 {
		cov["samples"] = []string{"no run of this invocation produced a sample"}
	}
	ev := map[string]interface{}{
		"property_id": id,
		"tier":        tier,
		"seed":        seed,
		"level":       pi.Level,
		"coverage":    cov,
		"assumptions": []string{
			"interleavings are explored at the granularity of synchronisation operations (statement granularity inside bgzf/cache); weak-memory effects are not modelled",
			"the standard library under hts is deterministic and spawns no goroutines",
			"a clean batch is evidence proportional to the reported counts, not a proof",
		},
		"wall_s":     wall,
		"violations": nviol,
	}
	os.MkdirAll(filepath.Join(verifDir, "evidence"), 0o755)
	eb, _ := json.MarshalIndent(ev, "", " ")
	if err := os.WriteFile(filepath.Join(verifDir, "evidence", id+".json"), eb, 0o644); err != nil {
		die(2, "%v", err)
	}
}

func max64(a, b int64) int64 {
	if a > b {
		return a
	}
	return b
}

func replay(path string) int {
	rb, err := os.ReadFile(path)
	if err != nil {
		die(2, "%v", err)
	}
	var rp struct {
		Property string `json:"property"`
		Tier     string `json:"tier"`
		Seed     uint64 `json:"seed"`
	}
	if err := json.Unmarshal(rb, &rp); err != nil {
		die(2, "%v", err)
	}
	b := prepare()
	work := filepath.Join(verifDir, ".work", fmt.Sprintf("replay-%d", os.Getpid()))
	os.MkdirAll(work, 0o755)
	defer os.RemoveAll(work)
	abs, _ := filepath.Abs(path)
	job := map[string]interface{}{"property": rp.Property, "tier": rp.Tier, "seed": rp.Seed, "replay": abs, "out": filepath.Join(work, "replay.json")}
	wr, log, err := runWorker(b, job, filepath.Join(work, "job.json"), 30*time.Minute)
	if err != nil {
		if sig := crashSignature(log); sig != "" {
			fmt.Printf("replay of %s: the process died of a fatal runtime error: %s in %s\n", path, sig, crashFrames(log))
			fmt.Printf("VIOLATION property=%s replay=%s\n", rp.Property, path)
			return 1
		}
		fmt.Fprintln(os.Stderr, log)
		die(2, "%v", err)
	}
	if len(wr.Violation) == 0 || string(wr.Violation) == "null" {
		fmt.Printf("replay of %s: no violation (%s) run signature %x\n", path, wr.ReplayMsg, wr.ReplaySig)
		return 0
	}
	var v map[string]interface{}
	json.Unmarshal(wr.Violation, &v)
	fmt.Printf("replay of %s: identical=%v\nkind=%v class=%v\n%v\n", path, wr.ReplayOK, v["kind"], v["class"], v["msg"])
	fmt.Printf("VIOLATION property=%s replay=%s\n", rp.Property, path)
	return 1
}

func selftest(args []string) int {
	if len(args) < 1 || args[0] != "determinism" {
		die(2, "usage: htsverif selftest determinism [runs] [property...]")
	}
	runs := 64
	var ids []string
	for _, a := range args[1:] {
		if n, err := strconv.Atoi(a); err == nil {
			runs = n
		} else {
			ids = append(ids, a)
		}
	}
	if len(ids) == 0 {
		for id := range props {
			ids = append(ids, id)
		}
		sort.Strings(ids)
	}
	b := prepare()
	work := filepath.Join(verifDir, ".work", fmt.Sprintf("selftest-%d", os.Getpid()))
	os.MkdirAll(work, 0o755)
	defer os.RemoveAll(work)
	known := loadKnown()
	bad := 0
	type cfg struct {
		procs string
		rep   int
	}
	var cfgs []cfg
	reps := 2
	if n, err := strconv.Atoi(os.Getenv("HTSV_SELFTEST_REPS")); err == nil && n > 0 {
		reps = n
	}
	for _, p := range []string{"1", "4", "16"} {
		for r := 0; r < reps; r++ {
			cfgs = append(cfgs, cfg{p, r})
		}
	}
	for _, id := range ids {
		var myKnown []knownFinding
		for _, k := range known {
			if k.Property == id {
				myKnown = append(myKnown, k)
			}
		}
		outs := make([]string, len(cfgs))
		var wg sync.WaitGroup
		var mu sync.Mutex
		var firstErr error
		for i, c := range cfgs {
			wg.Add(1)
			go func(i int, c cfg) {
				defer wg.Done()
				sig := filepath.Join(work, fmt.Sprintf("%s-%d.sigs", id, i))
				job := map[string]interface{}{"property": id, "tier": "quick", "seed": uint64(7), "worker": 0, "workers": 1, "from": 0, "max_runs": runs,
					"out": filepath.Join(work, fmt.Sprintf("%s-%d.json", id, i)), "sigs_out": sig, "known": myKnown, "recheck_every": 1 << 30}
				os.Setenv("HTSV_COLLECT", "1")
				old := os.Getenv("HTSV_GOMAXPROCS")
				_ = old
				jb, _ := json.Marshal(job)
				jp := filepath.Join(work, fmt.Sprintf("%s-%d.job", id, i))
				os.WriteFile(jp, jb, 0o644)
				// -test.cpu sets the real GOMAXPROCS of the worker (the env variable alone would be overridden by it)
				cmd := exec.Command(b.bin, "-test.run", "^TestWorker$", "-test.cpu", c.procs, "-test.timeout", "0")
				cmd.Env = append(goEnv(), "HTSV_JOB="+jp, "GOMAXPROCS="+c.procs, "HTSV_COLLECT=1")
				out, err := cmd.CombinedOutput()
				sb, _ := os.ReadFile(sig)
				mu.Lock()
				outs[i] = string(sb)
				if err != nil && crashSignature(string(out)) == "" && firstErr == nil {
					firstErr = fmt.Errorf("%s (GOMAXPROCS=%s): %v\n%s", id, c.procs, err, tailOf(string(out), 2000))
				}
				mu.Unlock()
			}(i, c)
		}
		wg.Wait()
		if firstErr != nil {
			fmt.Println("selftest: worker failed:", firstErr)
			bad++
			continue
		}
		ok := true
		for i := 1; i < len(outs); i++ {
			if outs[i] != outs[0] {
				ok = false
				a, bb := strings.Split(outs[0], "\n"), strings.Split(outs[i], "\n")
				for k := 0; k < len(a) && k < len(bb); k++ {
					if a[k] != bb[k] {
						fmt.Printf("selftest: %s: process 0 (GOMAXPROCS=%s) and process %d (GOMAXPROCS=%s) differ at line %d: %q vs %q\n", id, cfgs[0].procs, i, cfgs[i].procs, k, a[k], bb[k])
						break
					}
				}
			}
		}
		n := strings.Count(outs[0], "\n")
		if ok {
			fmt.Printf("selftest: %s: %d runs x %d processes (GOMAXPROCS 1,4,16 x %d): identical run signatures\n", id, n, len(cfgs), reps)
		} else {
			bad++
		}
	}
	if bad > 0 {
		fmt.Printf("selftest: determinism FAILED for %d properties\n", bad)
		return 2
	}
	return 0
}

func tailOf(s string, n int) string {
	if len(s) > n {
		return s[len(s)-n:]
	}
	return s
}
