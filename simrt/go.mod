module github.com/biogo/hts

go 1.19
