package simhook

import (
	"fmt"
	"reflect"
	"sort"
	"time"
)

func nativeSleep(d int64) { time.Sleep(time.Duration(d)) }

// Send replaces `ch <- v` (rule R2).
func Send[T any](ch chan<- T, v T, site string) {
	s := current.Load()
	if s == nil || s.cur == nil {
		ch <- v
		return
	}
	g := s.enter(site)
	s.inOp(g)
	ch <- v
	s.leave(g)
}

// Recv replaces `<-ch` (rule R3).
func Recv[T any](ch <-chan T, site string) T {
	s := current.Load()
	if s == nil || s.cur == nil {
		return <-ch
	}
	g := s.enter(site)
	s.inOp(g)
	v := <-ch
	s.leave(g)
	return v
}

// Recv2 replaces `v, ok := <-ch` (rule R3).
func Recv2[T any](ch <-chan T, site string) (T, bool) {
	s := current.Load()
	if s == nil || s.cur == nil {
		v, ok := <-ch
		return v, ok
	}
	g := s.enter(site)
	s.inOp(g)
	v, ok := <-ch
	s.leave(g)
	return v, ok
}

// Close replaces close(ch) (rule R4).
func Close[T any](ch chan<- T, site string) {
	s := current.Load()
	if s == nil || s.cur == nil {
		close(ch)
		return
	}
	s.enter(site)
	close(ch)
}

// Case is one communication clause of a rewritten select statement.
type Case interface {
	selectCase() reflect.SelectCase
	set(v reflect.Value, ok bool)
}

// RCase is a receive clause.
type RCase[T any] struct {
	ch  <-chan T
	val T
	ok  bool
}

// RecvCase builds a receive clause.
func RecvCase[T any](ch <-chan T) *RCase[T] { return &RCase[T]{ch: ch} }

// Val is the received value.
func (c *RCase[T]) Val() T { return c.val }

// Ok reports whether the value was sent (false: channel closed).
func (c *RCase[T]) Ok() bool { return c.ok }

func (c *RCase[T]) selectCase() reflect.SelectCase {
	return reflect.SelectCase{Dir: reflect.SelectRecv, Chan: reflect.ValueOf(c.ch)}
}

func (c *RCase[T]) set(v reflect.Value, ok bool) {
	c.ok = ok
	if v.IsValid() {
		if x, isT := v.Interface().(T); isT {
			c.val = x
		}
	}
}

// SCase is a send clause.
type SCase[T any] struct {
	ch chan<- T
	v  T
}

// SendCase builds a send clause.
func SendCase[T any](ch chan<- T, v T) *SCase[T] { return &SCase[T]{ch: ch, v: v} }

func (c *SCase[T]) selectCase() reflect.SelectCase {
	return reflect.SelectCase{Dir: reflect.SelectSend, Chan: reflect.ValueOf(c.ch), Send: reflect.ValueOf(&c.v).Elem()}
}

func (c *SCase[T]) set(reflect.Value, bool) {}

// Select replaces a select statement (rule R6). It returns the index of the
// clause that fired, or -1 for the default clause.
func Select(site string, hasDefault bool, cases ...Case) int {
	scs := make([]reflect.SelectCase, len(cases), len(cases)+1)
	for i, c := range cases {
		scs[i] = c.selectCase()
	}
	s := current.Load()
	if s == nil || s.cur == nil {
		if hasDefault {
			scs = append(scs, reflect.SelectCase{Dir: reflect.SelectDefault})
		}
		i, v, ok := reflect.Select(scs)
		if i == len(cases) {
			return -1
		}
		cases[i].set(v, ok)
		return i
	}
	g := s.enter(site)
	// Try the clauses one at a time, without blocking, in an order chosen
	// by the simulation: the choice among ready clauses is ours, not the
	// runtime's.
	order := make([]int, len(cases))
	for i := range order {
		order[i] = i
	}
	for i := len(order) - 1; i > 0; i-- {
		j := Choose("select", i+1)
		order[i], order[j] = order[j], order[i]
	}
	for _, i := range order {
		sc := scs[i]
		if !sc.Chan.IsValid() || sc.Chan.IsNil() {
			continue
		}
		if sc.Dir == reflect.SelectRecv {
			// TryRecv: a valid v means a value was received (ok) or the
			// channel is closed (!ok); an invalid v means it would block.
			v, ok := sc.Chan.TryRecv()
			if v.IsValid() {
				cases[i].set(v, ok)
				return i
			}
		} else if sc.Chan.TrySend(sc.Send) {
			// TrySend panics on a closed channel exactly as a native send does.
			return i
		}
	}
	if hasDefault {
		return -1
	}
	s.inOp(g)
	i, v, ok := reflect.Select(scs)
	s.leave(g)
	cases[i].set(v, ok)
	return i
}

// MapKeys returns the keys of m in an order chosen by the simulation (rule
// R7): sorted, then permuted by the "maporder" stream. Outside a simulation
// the order is Go's.
func MapKeys[K comparable, V any](m map[K]V, site string) []K {
	keys := make([]K, 0, len(m))
	for k := range m {
		keys = append(keys, k)
	}
	s := current.Load()
	if s == nil || s.cur == nil {
		return keys
	}
	sort.Slice(keys, func(i, j int) bool { return lessAny(keys[i], keys[j]) })
	for i := len(keys) - 1; i > 0; i-- {
		j := Choose("maporder", i+1)
		keys[i], keys[j] = keys[j], keys[i]
	}
	return keys
}

func lessAny(a, b interface{}) bool {
	switch x := a.(type) {
	case int:
		return x < b.(int)
	case int64:
		return x < b.(int64)
	case int32:
		return x < b.(int32)
	case uint64:
		return x < b.(uint64)
	case uint32:
		return x < b.(uint32)
	case uint16:
		return x < b.(uint16)
	case uint8:
		return x < b.(uint8)
	case string:
		return x < b.(string)
	}
	return fmt.Sprintf("%#v", a) < fmt.Sprintf("%#v", b)
}
