//go:debug asynctimerchan=0

package simhook_test

import (
	"math/rand"
	"testing"
	"testing/synctest"
	"time"

	"github.com/biogo/hts/simhook"
	sync "github.com/biogo/hts/simhook/simsync"
)

func runOnce(t *testing.T, seed int64, body func()) (res simhook.Result) {
	defer func() { recover() }() // end-of-bubble "blocked goroutines remain"
	synctest.Test(t, func(t *testing.T) {
		rng := rand.New(rand.NewSource(seed))
		s := simhook.New(simhook.Config{
			Pick:    func(r []simhook.GInfo, last int, lr bool) int { return rng.Intn(len(r)) },
			Choose:  func(_ string, n int) int { return rng.Intn(n) },
			Quiesce: synctest.Wait,
		})
		res = s.Run(body)
	})
	return res
}

func TestDeterminism(t *testing.T) {
	sigs := map[uint64]bool{}
	for seed := int64(0); seed < 200; seed++ {
		a := runOnceSafe(t, seed)
		b := runOnceSafe(t, seed)
		if a.Sig != b.Sig || a.Steps != b.Steps {
			t.Fatalf("seed %d: nondeterministic %v vs %v", seed, a, b)
		}
		sigs[a.SchedSig] = true
	}
	t.Logf("distinct schedules: %d", len(sigs))
}

func runOnceSafe(t *testing.T, seed int64) simhook.Result {
	return runOnce(t, seed, func() {
		q := make(chan int, 2)
		var wg sync.WaitGroup
		var mu sync.RWMutex
		sum := 0
		for i := 0; i < 3; i++ {
			wg.Add(1)
			simhook.Go("worker", func() {
				defer wg.Done()
				for {
					v, ok := simhook.Recv2(q, "recv q")
					if !ok {
						return
					}
					mu.Lock()
					sum += v
					mu.Unlock()
				}
			})
		}
		for i := 0; i < 10; i++ {
			simhook.Send(q, i, "send q")
		}
		simhook.Close(q, "close q")
		wg.Wait()
		mu.RLock()
		if sum != 45 {
			panic("bad sum")
		}
		mu.RUnlock()
	})
}

func TestSelfDeadlock(t *testing.T) {
	var res simhook.Result
	func() {
		defer func() { recover() }()
		res = runOnce(t, 1, func() {
			var mu sync.RWMutex
			mu.Lock()
			mu.RLock()
		})
	}()
	if res.Outcome != simhook.Deadlock {
		t.Fatalf("outcome %v", res)
	}
	t.Logf("%+v", res.Stuck)
}

func TestPanic(t *testing.T) {
	var res simhook.Result
	func() {
		defer func() { recover() }()
		res = runOnce(t, 1, func() {
			c := make(chan int)
			simhook.Go("x", func() { simhook.Close(c, "c1"); simhook.Close(c, "c2") })
			simhook.Recv(c, "r")
			simhook.Yield("y")
			simhook.Yield("y")
		})
	}()
	if res.Outcome != simhook.Panic {
		t.Fatalf("outcome %+v", res)
	}
	t.Logf("%s", res.PanicValue)
}

func TestSelect(t *testing.T) {
	counts := map[int]int{}
	for seed := int64(0); seed < 50; seed++ {
		runOnce(t, seed, func() {
			a := make(chan int, 1)
			b := make(chan int, 1)
			a <- 1
			b <- 2
			ca, cb := simhook.RecvCase(a), simhook.RecvCase(b)
			i := simhook.Select("sel", false, ca, cb)
			counts[i]++
			if i == 0 && ca.Val() != 1 || i == 1 && cb.Val() != 2 {
				panic("bad val")
			}
			c := make(chan int)
			simhook.Go("s", func() { simhook.Send(c, 7, "send c") })
			cc := simhook.RecvCase(c)
			var nilch chan int
			cn := simhook.RecvCase(nilch)
			if simhook.Select("sel2", false, cn, cc) != 1 || cc.Val() != 7 || !cc.Ok() {
				panic("bad blocking select")
			}
			if simhook.Select("sel3", true, cn) != -1 {
				panic("bad default")
			}
		})
	}
	if counts[0] == 0 || counts[1] == 0 {
		t.Fatalf("select order not varied: %v", counts)
	}
}

// Timers: simulated time stands still while anything can run and jumps to
// the next timer when everything is blocked; a run with no timer pending
// that is stuck is still a deadlock.
func TestTimers(t *testing.T) {
	for seed := int64(0); seed < 50; seed++ {
		var order []string
		var elapsed time.Duration
		res := runOnce(t, seed, func() {
			start := time.Now()
			done := make(chan struct{})
			simhook.Go("timeout", func() {
				cLong := simhook.RecvCase(time.After(5 * time.Second))
				cDone := simhook.RecvCase(done)
				switch simhook.Select("select", false, cLong, cDone) {
				case 0:
					order = append(order, "timeout")
				case 1:
					order = append(order, "done")
				}
			})
			simhook.Go("sleeper", func() {
				simhook.Sleep(int64(time.Second), "sleep")
				order = append(order, "slept")
				simhook.Close(done, "close done")
			})
			tm := time.NewTimer(10 * time.Second)
			simhook.Recv(tm.C, "timer")
			order = append(order, "timer")
			elapsed = time.Since(start)
		})
		if res.Outcome != simhook.OK {
			t.Fatalf("seed %d: outcome %s %s", seed, res.Outcome, res.Detail)
		}
		if len(order) != 3 || order[0] != "slept" || order[1] != "done" || order[2] != "timer" {
			t.Fatalf("seed %d: order %v", seed, order)
		}
		if elapsed != 10*time.Second {
			t.Fatalf("seed %d: simulated time %v", seed, elapsed)
		}
	}
	res := runOnce(t, 1, func() {
		simhook.Recv(make(chan int), "never")
	})
	if res.Outcome != simhook.Deadlock {
		t.Fatalf("a blocked client without timers: outcome %s", res.Outcome)
	}
}
