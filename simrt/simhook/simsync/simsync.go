// Package simsync replaces package sync in instrumented hts sources (rule
// R8). Its primitives block on channels through simhook, so that lock
// acquisition is a scheduling point, a goroutine may be descheduled while
// holding a lock, and self-deadlocks are visible to the simulator. Outside a
// simulation they behave like (slower) versions of the originals.
package simsync

import (
	"sync"

	"github.com/biogo/hts/simhook"
)

// Types that need no simulation are passed through.
type (
	Pool   = sync.Pool
	Map    = sync.Map
	Locker = sync.Locker
)

// gate is a broadcast wake-up: waiters block on the current channel, a state
// change closes it.
type gate struct {
	ch chan struct{}
}

func (g *gate) wait() chan struct{} {
	if g.ch == nil {
		g.ch = make(chan struct{})
	}
	return g.ch
}

func (g *gate) broadcast() {
	if g.ch != nil {
		close(g.ch)
		g.ch = nil
	}
}

// Mutex simulates sync.Mutex. There is no hand-off: on Unlock every waiter
// becomes runnable and whoever the scheduler runs first takes the lock, which
// covers barging as well as FIFO acquisition.
type Mutex struct {
	mu     sync.Mutex
	locked bool
	g      gate
}

func (m *Mutex) Lock() {
	simhook.Yield("sync.Mutex.Lock")
	for {
		m.mu.Lock()
		if !m.locked {
			m.locked = true
			m.mu.Unlock()
			return
		}
		ch := m.g.wait()
		m.mu.Unlock()
		simhook.Block(ch, "sync.Mutex.Lock:blocked")
	}
}

func (m *Mutex) TryLock() bool {
	simhook.Yield("sync.Mutex.TryLock")
	m.mu.Lock()
	defer m.mu.Unlock()
	if m.locked {
		return false
	}
	m.locked = true
	return true
}

func (m *Mutex) Unlock() {
	simhook.Yield("sync.Mutex.Unlock")
	m.mu.Lock()
	if !m.locked {
		m.mu.Unlock()
		panic("sync: unlock of unlocked mutex")
	}
	m.locked = false
	m.g.broadcast()
	m.mu.Unlock()
}

// RWMutex simulates sync.RWMutex including writer preference: a pending
// Lock blocks new RLocks, so recursive read locking with a waiting writer
// deadlocks as it does in Go.
type RWMutex struct {
	mu       sync.Mutex
	readers  int
	writer   bool
	wwaiting int
	g        gate
}

func (m *RWMutex) RLock() {
	simhook.Yield("sync.RWMutex.RLock")
	for {
		m.mu.Lock()
		if !m.writer && m.wwaiting == 0 {
			m.readers++
			m.mu.Unlock()
			return
		}
		ch := m.g.wait()
		m.mu.Unlock()
		simhook.Block(ch, "sync.RWMutex.RLock:blocked")
	}
}

func (m *RWMutex) TryRLock() bool {
	simhook.Yield("sync.RWMutex.TryRLock")
	m.mu.Lock()
	defer m.mu.Unlock()
	if m.writer || m.wwaiting > 0 {
		return false
	}
	m.readers++
	return true
}

func (m *RWMutex) RUnlock() {
	simhook.Yield("sync.RWMutex.RUnlock")
	m.mu.Lock()
	if m.readers <= 0 {
		m.mu.Unlock()
		panic("sync: RUnlock of unlocked RWMutex")
	}
	m.readers--
	if m.readers == 0 {
		m.g.broadcast()
	}
	m.mu.Unlock()
}

func (m *RWMutex) Lock() {
	simhook.Yield("sync.RWMutex.Lock")
	waiting := false
	for {
		m.mu.Lock()
		if !m.writer && m.readers == 0 {
			m.writer = true
			if waiting {
				m.wwaiting--
			}
			m.mu.Unlock()
			return
		}
		if !waiting {
			waiting = true
			m.wwaiting++
		}
		ch := m.g.wait()
		m.mu.Unlock()
		simhook.Block(ch, "sync.RWMutex.Lock:blocked")
	}
}

func (m *RWMutex) TryLock() bool {
	simhook.Yield("sync.RWMutex.TryLock")
	m.mu.Lock()
	defer m.mu.Unlock()
	if m.writer || m.readers > 0 {
		return false
	}
	m.writer = true
	return true
}

func (m *RWMutex) Unlock() {
	simhook.Yield("sync.RWMutex.Unlock")
	m.mu.Lock()
	if !m.writer {
		m.mu.Unlock()
		panic("sync: Unlock of unlocked RWMutex")
	}
	m.writer = false
	m.g.broadcast()
	m.mu.Unlock()
}

// RLocker returns a Locker for the read side.
func (m *RWMutex) RLocker() sync.Locker { return (*rlocker)(m) }

type rlocker RWMutex

func (r *rlocker) Lock()   { (*RWMutex)(r).RLock() }
func (r *rlocker) Unlock() { (*RWMutex)(r).RUnlock() }

// WaitGroup simulates sync.WaitGroup.
type WaitGroup struct {
	mu sync.Mutex
	n  int
	g  gate
}

func (w *WaitGroup) Add(delta int) {
	simhook.Yield("sync.WaitGroup.Add")
	w.mu.Lock()
	w.n += delta
	if w.n < 0 {
		w.mu.Unlock()
		panic("sync: negative WaitGroup counter")
	}
	if w.n == 0 {
		w.g.broadcast()
	}
	w.mu.Unlock()
}

func (w *WaitGroup) Done() { w.Add(-1) }

func (w *WaitGroup) Wait() {
	simhook.Yield("sync.WaitGroup.Wait")
	for {
		w.mu.Lock()
		if w.n == 0 {
			w.mu.Unlock()
			return
		}
		ch := w.g.wait()
		w.mu.Unlock()
		simhook.Block(ch, "sync.WaitGroup.Wait:blocked")
	}
}

// Go runs f in a new goroutine counted by the group.
func (w *WaitGroup) Go(f func()) {
	w.Add(1)
	simhook.Go("sync.WaitGroup.Go", func() {
		defer w.Done()
		f()
	})
}

// Once simulates sync.Once.
type Once struct {
	m    Mutex
	done bool
}

func (o *Once) Do(f func()) {
	o.m.Lock()
	defer o.m.Unlock()
	if !o.done {
		defer func() { o.done = true }()
		f()
	}
}

// OnceFunc, OnceValue and OnceValues mirror the sync helpers of the same name
// on top of the simulated Once (a panic of f is not re-raised on later calls
// as the originals do; f simply does not run again).
func OnceFunc(f func()) func() {
	var o Once
	return func() { o.Do(f) }
}

func OnceValue[T any](f func() T) func() T {
	var o Once
	var v T
	return func() T {
		o.Do(func() { v = f() })
		return v
	}
}

func OnceValues[T1, T2 any](f func() (T1, T2)) func() (T1, T2) {
	var o Once
	var v1 T1
	var v2 T2
	return func() (T1, T2) {
		o.Do(func() { v1, v2 = f() })
		return v1, v2
	}
}

// Cond simulates sync.Cond.
type Cond struct {
	L  sync.Locker
	mu sync.Mutex
	ws []chan struct{}
}

func NewCond(l sync.Locker) *Cond { return &Cond{L: l} }

func (c *Cond) Wait() {
	ch := make(chan struct{})
	c.mu.Lock()
	c.ws = append(c.ws, ch)
	c.mu.Unlock()
	c.L.Unlock()
	simhook.Block(ch, "sync.Cond.Wait:blocked")
	c.L.Lock()
}

func (c *Cond) Signal() {
	simhook.Yield("sync.Cond.Signal")
	c.mu.Lock()
	if len(c.ws) > 0 {
		i := simhook.Choose("cond", len(c.ws))
		close(c.ws[i])
		c.ws = append(c.ws[:i], c.ws[i+1:]...)
	}
	c.mu.Unlock()
}

func (c *Cond) Broadcast() {
	simhook.Yield("sync.Cond.Broadcast")
	c.mu.Lock()
	for _, ch := range c.ws {
		close(ch)
	}
	c.ws = nil
	c.mu.Unlock()
}
