// Package simhook is the runtime of the deterministic simulator used by
// /verif. It is mounted into the hts module at check time through a build
// overlay; it is never part of the shipped library.
//
// Outside an active simulation every helper falls through to the native Go
// operation, so instrumented code behaves like the original.
//
// Inside a simulation at most one goroutine executes user code at a time.
// A goroutine arriving at a scheduling point parks on a private channel; the
// scheduler (the goroutine that called Run) waits for quiescence, asks the
// Pick callback which parked goroutine runs next and releases exactly that
// one. A goroutine that blocks natively inside the single channel operation
// it was released into is simply absent from the runnable set; when another
// goroutine's step wakes it, the first thing it does is park again.
package simhook

import (
	"fmt"
	"runtime"
	"runtime/debug"
	"sort"
	"strings"
	"sync"
	"sync/atomic"
	"time"
)

// Outcome classes of one simulated run.
const (
	OK         = "ok"
	Deadlock   = "deadlock" // a client never returned and nothing can run
	Livelock   = "livelock" // a client never returned under a fair schedule
	Panic      = "panic"    // some simulated goroutine panicked
	Budget     = "budget"   // step budget exceeded but a fair schedule finished: inconclusive
	Foreign    = "foreign"  // a goroutine blocked outside any instrumented operation: machinery problem
	stRunning  = 0
	stParked   = 1
	stInOp     = 2
	stBlocked  = 3
	stDone     = 4
	ringLength = 256
)

// GInfo describes a simulated goroutine to callbacks and reports.
type GInfo struct {
	ID     int    `json:"id"`
	Name   string `json:"name"`
	Site   string `json:"site"`
	Client bool   `json:"client"`
	State  string `json:"state,omitempty"`
}

// Config configures one simulation.
type Config struct {
	// Pick returns the index in runnable (sorted by goroutine id) of the
	// goroutine to run next. last is the id of the goroutine that ran the
	// previous step (-1 at the start); lastRunnable tells whether it is in
	// runnable.
	Pick func(runnable []GInfo, last int, lastRunnable bool) int
	// Choose draws a value in [0,n) from the named stream (select case
	// order, map iteration order).
	Choose func(stream string, n int) int
	// Quiesce blocks until every goroutine of the simulation is durably
	// blocked (testing/synctest.Wait).
	Quiesce func()
	// MaxSteps is the step budget before the fair phase starts.
	MaxSteps int
	// Procs is what GOMAXPROCS(0)/NumCPU() report.
	Procs int
	// StmtYields enables the statement-level yields (rule R10) inside
	// bgzf/cache; StmtYieldsAll those inside the other listed packages
	// (package bgzf).
	StmtYields    bool
	StmtYieldsAll bool
	// Trace, if set, is called by the scheduler for every decision.
	Trace func(step, gid int, name, site string)
}

// Event is one scheduling decision.
type Event struct {
	Step int    `json:"step"`
	G    int    `json:"g"`
	Site string `json:"site"`
}

// Result is what Run reports.
type Result struct {
	Outcome     string   `json:"outcome"`
	Steps       int      `json:"steps"`
	Sig         uint64   `json:"sig"`
	SchedSig    uint64   `json:"sched_sig"`
	Preemptions int      `json:"preemptions"`
	Goroutines  int      `json:"goroutines"`
	LiveLib     []GInfo  `json:"live_lib,omitempty"` // library goroutines alive at the end
	Stuck       []GInfo  `json:"stuck,omitempty"`    // every live goroutine at a deadlock/livelock
	PanicValue  string   `json:"panic_value,omitempty"`
	PanicStack  string   `json:"panic_stack,omitempty"`
	PanicG      *GInfo   `json:"panic_g,omitempty"`
	Tail        []Event  `json:"tail,omitempty"`
	Detail      string   `json:"detail,omitempty"`
	FairPhase   bool     `json:"fair_phase,omitempty"`
	MaxRunnable int      `json:"max_runnable"`
	Decisions   int      `json:"decisions"` // steps at which more than one goroutine was runnable
	stuckSites  []string // for classification
}

type gor struct {
	id     int
	name   string
	client bool
	wake   chan struct{}
	state  int
	site   string
	fn     func()
}

// Sim is one simulation.
type Sim struct {
	cfg Config

	mu  sync.Mutex
	gs  []*gor
	cur *gor

	step     int
	sig      uint64
	schedSig uint64
	preempt  int
	last     int
	maxRun   int
	decis    int

	ring  [ringLength]Event
	ringN int

	panicked   bool
	panicVal   string
	panicStack string
	panicG     *gor

	// coverage
	Sites    map[string]int    // site -> times scheduled
	Switches map[[2]string]int // (site of previous goroutine, site of next goroutine) when they differ
	lastSite string

	siteHash map[string]uint64

	// parkSig is signalled when a goroutine that the scheduler saw blocked
	// has finished its operation and parked (see waitForTimer).
	parkSig chan struct{}
}

var current atomic.Pointer[Sim]

// Active reports whether a simulation is running.
func Active() bool { return current.Load() != nil }

// Cur returns the active simulation or nil.
func Cur() *Sim { return current.Load() }

// New returns a simulation with the given configuration.
func New(cfg Config) *Sim {
	if cfg.MaxSteps <= 0 {
		cfg.MaxSteps = 200000
	}
	if cfg.Procs <= 0 {
		cfg.Procs = 1
	}
	return &Sim{
		cfg:      cfg,
		sig:      14695981039346656037,
		schedSig: 14695981039346656037,
		last:     -1,
		Sites:    make(map[string]int),
		Switches: make(map[[2]string]int),
		siteHash: make(map[string]uint64),
		parkSig:  make(chan struct{}, 1),
	}
}

func fnvStr(h uint64, s string) uint64 {
	for i := 0; i < len(s); i++ {
		h ^= uint64(s[i])
		h *= 1099511628211
	}
	return h
}

func fnvU64(h uint64, v uint64) uint64 {
	for i := 0; i < 8; i++ {
		h ^= v & 0xff
		h *= 1099511628211
		v >>= 8
	}
	return h
}

// Fold mixes harness-level observations (API results, disk calls) into the
// run signature. It must be called by the running goroutine.
func (s *Sim) Fold(tag string, vals ...uint64) {
	s.sig = fnvStr(s.sig, tag)
	for _, v := range vals {
		s.sig = fnvU64(s.sig, v)
	}
}

// FoldBytes mixes a byte string into the run signature.
func (s *Sim) FoldBytes(tag string, b []byte) {
	s.sig = fnvStr(s.sig, tag)
	h := uint64(14695981039346656037)
	for _, c := range b {
		h ^= uint64(c)
		h *= 1099511628211
	}
	s.sig = fnvU64(s.sig, h)
	s.sig = fnvU64(s.sig, uint64(len(b)))
}

// Step returns the number of scheduling decisions made so far (logical time).
func (s *Sim) Step() int { return s.step }

func (s *Sim) spawn(name string, client bool, fn func()) *gor {
	g := &gor{name: name, client: client, wake: make(chan struct{}, 1), state: stParked, site: "go:" + name, fn: fn}
	s.mu.Lock()
	g.id = len(s.gs)
	s.gs = append(s.gs, g)
	s.mu.Unlock()
	go s.body(g)
	return g
}

func (s *Sim) body(g *gor) {
	<-g.wake
	defer func() {
		if r := recover(); r != nil {
			s.mu.Lock()
			if !s.panicked {
				s.panicked = true
				s.panicVal = fmt.Sprint(r)
				s.panicStack = string(debug.Stack())
				s.panicG = g
			}
			g.state = stDone
			s.mu.Unlock()
			return
		}
		s.mu.Lock()
		g.state = stDone
		s.mu.Unlock()
	}()
	g.fn()
}

// enter is the prologue of every scheduling point: the running goroutine
// parks and waits to be released again. It returns the goroutine's identity.
func (s *Sim) enter(site string) *gor {
	g := s.cur
	if g == nil {
		// Not called by a simulated goroutine (e.g. the scheduler's own
		// goroutine before Run): behave natively.
		return nil
	}
	s.mu.Lock()
	g.state = stParked
	g.site = site
	s.mu.Unlock()
	<-g.wake
	return g
}

// inOp marks g as about to perform a native operation that may block.
func (s *Sim) inOp(g *gor) {
	s.mu.Lock()
	g.state = stInOp
	s.mu.Unlock()
}

// leave is the epilogue of a possibly blocking operation. If the scheduler
// saw the goroutine blocked, somebody else is running now: park.
func (s *Sim) leave(g *gor) {
	s.mu.Lock()
	if g.state == stBlocked {
		g.state = stParked
		g.site = g.site + "+woken"
		s.mu.Unlock()
		select {
		case s.parkSig <- struct{}{}:
		default:
		}
		<-g.wake
		return
	}
	g.state = stRunning
	s.mu.Unlock()
}

func stateName(st int) string {
	switch st {
	case stRunning:
		return "running"
	case stParked:
		return "runnable"
	case stInOp, stBlocked:
		return "blocked"
	case stDone:
		return "done"
	}
	return "?"
}

func (g *gor) info() GInfo {
	return GInfo{ID: g.id, Name: g.name, Site: g.site, Client: g.client, State: stateName(g.state)}
}

// Run executes client as goroutine 0 under the simulator and returns when
// nothing can run any more. It must be called from inside a synctest bubble
// by the goroutine that acts as scheduler.
func (s *Sim) Run(client func()) (res Result) {
	if !current.CompareAndSwap(nil, s) {
		panic("simhook: nested or concurrent simulations")
	}
	defer current.Store(nil)
	s.spawn("client", true, client)

	var runnable []*gor
	var infos []GInfo
	fair := false
	for {
		s.cfg.Quiesce()
		s.mu.Lock()
		if c := s.cur; c != nil {
			switch c.state {
			case stInOp:
				c.state = stBlocked
			case stRunning:
				// durably blocked, but not in any operation we know
				s.cur = nil
				s.mu.Unlock()
				res = s.result(Foreign, fair)
				res.Detail = fmt.Sprintf("goroutine %d (%s) blocked outside instrumented code after site %s", c.id, c.name, c.site)
				return res
			}
			s.cur = nil
		}
		if s.panicked {
			s.mu.Unlock()
			res = s.result(Panic, fair)
			return res
		}
		runnable = runnable[:0]
		for _, g := range s.gs {
			if g.state == stParked {
				runnable = append(runnable, g)
			}
		}
		if len(runnable) == 0 {
			s.mu.Unlock()
			if s.waitForTimer() {
				continue
			}
			break
		}
		if s.step >= s.cfg.MaxSteps {
			if !fair {
				fair = true
			} else if s.step >= 2*s.cfg.MaxSteps {
				s.mu.Unlock()
				res = s.result(Livelock, fair)
				return res
			}
		}
		lastRunnable := false
		for _, g := range runnable {
			if g.id == s.last {
				lastRunnable = true
			}
		}
		var idx int
		if len(runnable) == 1 {
			idx = 0
		} else if fair {
			// round robin: smallest id greater than last, else smallest
			idx = 0
			for i, g := range runnable {
				if g.id > s.last {
					idx = i
					break
				}
			}
			s.decis++
		} else {
			infos = infos[:0]
			for _, g := range runnable {
				infos = append(infos, GInfo{ID: g.id, Name: g.name, Site: g.site, Client: g.client})
			}
			idx = s.cfg.Pick(infos, s.last, lastRunnable)
			if idx < 0 || idx >= len(runnable) {
				idx = 0
			}
			s.decis++
		}
		if len(runnable) > s.maxRun {
			s.maxRun = len(runnable)
		}
		g := runnable[idx]
		if lastRunnable && g.id != s.last {
			s.preempt++
		}
		// record
		sh, ok := s.siteHash[g.site]
		if !ok {
			sh = fnvStr(14695981039346656037, g.site)
			s.siteHash[g.site] = sh
		}
		s.schedSig = fnvU64(fnvU64(s.schedSig, uint64(g.id)), sh)
		s.sig = fnvU64(fnvU64(s.sig, uint64(g.id)), sh)
		s.Sites[g.site]++
		if g.id != s.last && s.last >= 0 {
			s.Switches[[2]string{s.lastSite, g.site}]++
		}
		s.lastSite = g.site
		s.ring[s.ringN%ringLength] = Event{Step: s.step, G: g.id, Site: g.site}
		s.ringN++
		if s.cfg.Trace != nil {
			s.cfg.Trace(s.step, g.id, g.name, g.site)
		}
		s.step++
		s.last = g.id
		g.state = stRunning
		s.cur = g
		s.mu.Unlock()
		g.wake <- struct{}{}
	}

	// Nothing runnable.
	clientsDone := true
	s.mu.Lock()
	for _, g := range s.gs {
		if g.client && g.state != stDone {
			clientsDone = false
		}
	}
	s.mu.Unlock()
	if !clientsDone {
		return s.result(Deadlock, fair)
	}
	if fair {
		return s.result(Budget, fair)
	}
	return s.result(OK, fair)
}

// idleHorizon is how far simulated time may jump while nothing is runnable.
const idleHorizon = 1000 * time.Hour

// waitForTimer is called when no goroutine is runnable. Code under test that
// waits for a timer (time.After, Timer.C, Sleep, a context deadline) is
// blocked natively on the bubble's fake clock, which advances only when every
// goroutine of the bubble is durably blocked: the scheduler therefore blocks
// too, until a woken goroutine has parked or the horizon passes. Simulated
// time thus stands still while anything can run, and a timer fires only
// when the system is otherwise stuck. Costs no real time.
func (s *Sim) waitForTimer() bool {
	s.mu.Lock()
	blocked := false
	for _, g := range s.gs {
		if g.state == stBlocked {
			blocked = true
		}
	}
	s.mu.Unlock()
	if !blocked {
		return false
	}
	select {
	case <-s.parkSig: // left over from an ordinary wake-up
	default:
	}
	t := time.NewTimer(idleHorizon)
	defer t.Stop()
	select {
	case <-s.parkSig:
		return true
	case <-t.C:
		return false
	}
}

func (s *Sim) result(outcome string, fair bool) Result {
	s.mu.Lock()
	defer s.mu.Unlock()
	r := Result{
		Outcome:     outcome,
		Steps:       s.step,
		Sig:         s.sig,
		SchedSig:    s.schedSig,
		Preemptions: s.preempt,
		Goroutines:  len(s.gs),
		FairPhase:   fair,
		MaxRunnable: s.maxRun,
		Decisions:   s.decis,
	}
	for _, g := range s.gs {
		if g.state != stDone {
			if !g.client {
				r.LiveLib = append(r.LiveLib, g.info())
			}
			if outcome == Deadlock || outcome == Livelock {
				r.Stuck = append(r.Stuck, g.info())
			}
		}
	}
	if outcome == Panic {
		r.PanicValue = s.panicVal
		r.PanicStack = s.panicStack
		if s.panicG != nil {
			gi := s.panicG.info()
			r.PanicG = &gi
		}
	}
	if outcome != OK {
		n := s.ringN
		if n > ringLength {
			n = ringLength
		}
		for i := s.ringN - n; i < s.ringN; i++ {
			r.Tail = append(r.Tail, s.ring[i%ringLength])
		}
	}
	return r
}

// StuckSites returns the sorted, de-duplicated sites (without line numbers)
// at which goroutines are stuck; used to classify a deadlock.
func (r *Result) StuckSites() []string {
	var out []string
	seen := map[string]bool{}
	for _, g := range r.Stuck {
		k := StripLine(g.Site)
		if g.Client {
			k = "client:" + k
		}
		if !seen[k] {
			seen[k] = true
			out = append(out, k)
		}
	}
	sort.Strings(out)
	return out
}

// StripLine removes the "@file:line" suffix and wake markers from a site.
func StripLine(site string) string {
	site = strings.TrimSuffix(site, "+woken")
	if i := strings.LastIndex(site, "@"); i >= 0 {
		site = site[:i]
	}
	return site
}

// Go starts fn as a new simulated goroutine (rule R1).
func Go(site string, fn func()) {
	s := current.Load()
	if s == nil || s.cur == nil {
		go fn()
		return
	}
	s.enter("go@" + site)
	s.spawn(site, false, fn)
}

// GoClient starts fn as an additional client goroutine; the run is a
// deadlock if it never returns.
func GoClient(name string, fn func()) {
	s := current.Load()
	if s == nil || s.cur == nil {
		go fn()
		return
	}
	s.enter("goclient@" + name)
	s.spawn(name, true, fn)
}

// Yield is a plain scheduling point.
func Yield(site string) {
	s := current.Load()
	if s == nil || s.cur == nil {
		return
	}
	s.enter(site)
}

// StmtYield is the statement-level scheduling point of rule R10.
func StmtYield(site string) {
	s := current.Load()
	if s == nil || s.cur == nil || !s.cfg.StmtYields {
		return
	}
	s.enter(site)
}

// StmtYieldAll is the statement-level scheduling point inserted into package
// bgzf: it lets goroutines interleave between any two statements, so that an
// access to shared state placed on the wrong side of a hand-off shows up as a
// wrong result (the simulator otherwise switches only at synchronisation
// operations).
func StmtYieldAll(site string) {
	s := current.Load()
	if s == nil || s.cur == nil || !s.cfg.StmtYieldsAll {
		return
	}
	s.enter(site)
}

// Sleep replaces time.Sleep: a scheduling point, then a sleep on the
// bubble's fake clock (see waitForTimer).
func Sleep(d int64, site string) {
	s := current.Load()
	if s == nil || s.cur == nil {
		nativeSleep(d)
		return
	}
	g := s.enter(site)
	s.inOp(g)
	nativeSleep(d)
	s.leave(g)
}

// GOMAXPROCS replaces runtime.GOMAXPROCS.
func GOMAXPROCS(n int) int {
	s := current.Load()
	if s == nil {
		return runtime.GOMAXPROCS(n)
	}
	return s.cfg.Procs
}

// NumCPU replaces runtime.NumCPU.
func NumCPU() int {
	s := current.Load()
	if s == nil {
		return runtime.NumCPU()
	}
	return s.cfg.Procs
}

// Block is used by simsync: the calling goroutine waits natively on ch
// (which is closed by whoever releases it). There is no prologue yield.
func Block(ch <-chan struct{}, site string) {
	s := current.Load()
	if s == nil || s.cur == nil {
		<-ch
		return
	}
	g := s.cur
	site = site + "<-" + callerOutside()
	s.mu.Lock()
	g.state = stInOp
	g.site = site
	s.mu.Unlock()
	<-ch
	s.leave(g)
}

// callerOutside names the innermost calling function that is not part of
// the simulator runtime.
func callerOutside() string {
	var pcs [16]uintptr
	n := runtime.Callers(2, pcs[:])
	frames := runtime.CallersFrames(pcs[:n])
	for {
		f, more := frames.Next()
		if !strings.Contains(f.Function, "/simhook") {
			name := f.Function
			if i := strings.LastIndex(name, "/"); i >= 0 {
				name = name[i+1:]
			}
			return name
		}
		if !more {
			return "?"
		}
	}
}

// Choose draws from a named stream of the active simulation (0 outside).
func Choose(stream string, n int) int {
	s := current.Load()
	if s == nil || s.cfg.Choose == nil || n <= 1 {
		return 0
	}
	v := s.cfg.Choose(stream, n)
	if v < 0 || v >= n {
		v = 0
	}
	return v
}
