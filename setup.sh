#!/bin/sh
# Builds the verification driver from files on disk only (offline) and warms
# the go1.26.8 build cache by instrumenting /repo and building the harness.
set -e
cd "$(dirname "$0")"
export GOFLAGS=-mod=mod GOPROXY=off GOSUMDB=off GOTOOLCHAIN=local
mkdir -p bin evidence replays .cache .work
go1.26.8 build -o bin/htsverif ./cmd/htsverif
./bin/htsverif build
# prove the simulator deterministic on this machine before anything is believed
./bin/htsverif selftest determinism 24
echo "setup ok"
