package harness

import (
	"strings"

	"github.com/biogo/hts/simhook"
)

// Scheduling policies (swarm: one is drawn per simulation). A policy only
// proposes; the chosen index is what the tape records.
type policy struct {
	name     string
	sticky   float64
	prio     map[int]float64 // pct
	changeAt map[int]bool
	starve   string
	step     int
	rr       bool
}

var policyNames = []string{"uniform", "sticky50", "sticky80", "sticky95", "pct1", "pct2", "pct3", "starve-emitter", "starve-worker", "starve-codec", "starve-client", "roundrobin"}

func newPolicy(t *Tape, estSteps int) *policy {
	if t.Replay {
		return &policy{name: "replay"}
	}
	r := t.Rng()
	p := &policy{name: policyNames[r.IntN(len(policyNames))]}
	switch p.name {
	case "sticky50":
		p.sticky = .5
	case "sticky80":
		p.sticky = .8
	case "sticky95":
		p.sticky = .95
	case "pct1", "pct2", "pct3":
		p.prio = map[int]float64{}
		p.changeAt = map[int]bool{}
		d := int(p.name[3] - '0')
		if estSteps < 10 {
			estSteps = 10
		}
		for i := 0; i < d; i++ {
			p.changeAt[r.IntN(estSteps)] = true
		}
	case "starve-emitter":
		p.starve = "NewWriterLevel:go" // the writer's emitting goroutine
	case "starve-worker":
		p.starve = "NewReader:go" // the reader's read-ahead worker
	case "starve-codec":
		p.starve = "Block" // writeBlock / nextBlockAt inflate goroutines
	case "starve-client":
		p.starve = "client"
	case "roundrobin":
		p.rr = true
	}
	return p
}

func (p *policy) pick(t *Tape, runnable []simhook.GInfo, last int, lastRunnable bool) int {
	n := len(runnable)
	return t.DrawWith("sched", n, func() int {
		r := t.Rng()
		p.step++
		switch {
		case p.rr:
			for i, g := range runnable {
				if g.ID > last {
					return i
				}
			}
			return 0
		case p.sticky > 0:
			if lastRunnable && r.Float64() < p.sticky {
				for i, g := range runnable {
					if g.ID == last {
						return i
					}
				}
			}
			return r.IntN(n)
		case p.prio != nil:
			best, bi := -1.0, 0
			for i, g := range runnable {
				pr, ok := p.prio[g.ID]
				if !ok {
					pr = 1 + r.Float64()
					p.prio[g.ID] = pr
				}
				if pr > best {
					best, bi = pr, i
				}
			}
			if p.changeAt[p.step] {
				p.prio[runnable[bi].ID] = r.Float64() * 0.5 // demote below all initial priorities
			}
			return bi
		case p.starve != "":
			var others []int
			for i, g := range runnable {
				if !strings.Contains(g.Name, p.starve) {
					others = append(others, i)
				}
			}
			if len(others) == 0 {
				return r.IntN(n)
			}
			return others[r.IntN(len(others))]
		}
		return r.IntN(n)
	})
}
