package harness

import (
	"math/rand/v2"
)

// Tape is the single source of every choice made in one run. In generation
// mode a draw takes the next PRNG value and appends it to the stream's
// record; in replay mode it reads the record (values reduced mod n, an
// exhausted record yields 0 = the simplest choice).
type Tape struct {
	rng    *rand.Rand
	Replay bool
	Rec    map[string][]uint32
	pos    map[string]int
}

func splitmix64(x uint64) uint64 {
	x += 0x9e3779b97f4a7c15
	z := x
	z = (z ^ (z >> 30)) * 0xbf58476d1ce4e5b9
	z = (z ^ (z >> 27)) * 0x94d049bb133111eb
	return z ^ (z >> 31)
}

func hashStr(s string) uint64 {
	h := uint64(14695981039346656037)
	for i := 0; i < len(s); i++ {
		h ^= uint64(s[i])
		h *= 1099511628211
	}
	return h
}

// NewTape returns a generating tape for run r of property prop under seed.
func NewTape(seed uint64, prop string, run int) *Tape {
	a := splitmix64(seed ^ splitmix64(hashStr(prop)))
	b := splitmix64(a ^ uint64(run)*0x9e3779b97f4a7c15)
	return &Tape{rng: rand.New(rand.NewPCG(a, b)), Rec: map[string][]uint32{}, pos: map[string]int{}}
}

// ReplayTape returns a tape that replays rec.
func ReplayTape(rec map[string][]uint32) *Tape {
	cp := map[string][]uint32{}
	for k, v := range rec {
		cp[k] = append([]uint32(nil), v...)
	}
	return &Tape{Replay: true, Rec: cp, pos: map[string]int{}, rng: rand.New(rand.NewPCG(1, 2))}
}

// Draw returns a value in [0,n).
func (t *Tape) Draw(stream string, n int) int {
	if n <= 1 {
		return 0
	}
	return t.DrawWith(stream, n, func() int { return t.rng.IntN(n) })
}

// DrawWith is Draw with a custom generator for generation mode (scheduling
// policies); the decision, not the policy, is what is recorded.
func (t *Tape) DrawWith(stream string, n int, gen func() int) int {
	if n <= 1 {
		return 0
	}
	if t.Replay {
		p := t.pos[stream]
		r := t.Rec[stream]
		t.pos[stream] = p + 1
		if p >= len(r) {
			return 0
		}
		return int(r[p]) % n
	}
	v := gen()
	if v < 0 || v >= n {
		v = 0
	}
	t.Rec[stream] = append(t.Rec[stream], uint32(v))
	return v
}

// Used returns, in replay mode, the prefix of each record that was consumed;
// in generation mode the records.
func (t *Tape) Used() map[string][]uint32 {
	out := map[string][]uint32{}
	for k, v := range t.Rec {
		if t.Replay {
			n := t.pos[k]
			if n > len(v) {
				n = len(v)
			}
			v = v[:n]
		}
		if len(v) > 0 {
			out[k] = append([]uint32(nil), v...)
		}
	}
	return out
}

// Rng gives raw access for generation-mode-only internals (policies).
func (t *Tape) Rng() *rand.Rand { return t.rng }

// Helpers on the work stream.
func (t *Tape) Pick(stream string, xs ...int) int { return xs[t.Draw(stream, len(xs))] }
func (t *Tape) Bool(stream string) bool           { return t.Draw(stream, 2) == 1 }
func (t *Tape) Chance(stream string, num, den int) bool {
	return t.Draw(stream, den) < num
}
func (t *Tape) Range(stream string, lo, hi int) int { // inclusive
	if hi <= lo {
		return lo
	}
	return lo + t.Draw(stream, hi-lo+1)
}
