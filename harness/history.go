package harness

import (
	"bytes"
	"fmt"
	"io"

	"github.com/biogo/hts/bgzf"
)

// Reader histories over {Seek, Read, ReadByte, Blocked, SetCache, reread}
// and their execution against the flat model (C02, C03, C09, C13).

// genFileSpec draws a BGZF file for the independent encoder.
func genFileSpec(t *Tape, allowBig bool) FileSpec {
	fs := FileSpec{Level: t.Pick("work", -1, 1, 9, 0), EOF: t.Chance("work", 2, 3), ExtraB: t.Chance("work", 1, 4), ExtraA: t.Chance("work", 1, 4)}
	n := 1 + t.Draw("work", 8)
	if t.Chance("work", 1, 8) {
		n = 8 + t.Draw("work", 5)
	}
	big := allowBig && t.Chance("work", 1, 10)
	for i := 0; i < n; i++ {
		var p Payload
		switch {
		case t.Chance("work", 1, 6):
			p = Payload{Len: 0, Kind: "zeros"}
		case big && t.Chance("work", 1, 2):
			p = Payload{Len: []int{bs, bs - 1, 1, bs / 2}[t.Draw("work", 4)], Kind: payloadKinds[t.Draw("work", 4)], Seed: uint32(t.Draw("work", 1<<30))}
		default:
			p = Payload{Len: 1 + t.Draw("work", []int{4, 40, 400, 3000}[t.Draw("work", 4)]), Kind: payloadKinds[1+t.Draw("work", 3)], Seed: uint32(t.Draw("work", 1<<30))}
		}
		if p.Kind == "random" && p.Len > 60000 {
			p.Kind = "mixed" // keep every member within 64 KiB whatever the level
		}
		fs.Members = append(fs.Members, p)
	}
	fs.ExtraBC = t.Chance("work", 1, 8)
	return fs
}

// genHistory draws a reader history for a file with the given member sizes.
func genHistory(t *Tape, sizes []int, withCache bool, maxOps int) []ROp {
	n := 2 + t.Draw("work", maxOps-1)
	var h []ROp
	var visited []int
	nm := len(sizes)
	total := 0
	for _, s := range sizes {
		total += s
	}
	cacheKinds := []string{"lru", "fifo", "random", "lru+stats", "fifo+stats", "random+stats", ""}
	if t.Chance("work", 4, 5) {
		// most histories use one implementation, so that a defect of one
		// does not hide the others
		// FIFO carries an open known finding (F2): it gets a smaller share so
		// that most of the budget explores the implementations that can
		// still surprise
		k := []string{"lru", "random", "lru", "random", "lru", "fifo"}[t.Draw("work", 6)]
		cacheKinds = []string{k, k, k, k + "+stats", k + "+stats", k + "+stats", ""}
	}
	if withCache && t.Chance("work", 3, 4) {
		h = append(h, ROp{Op: "setcache", Cache: cacheKinds[t.Draw("work", 6)], Cap: 1 + t.Draw("work", 5)})
	}
	for i := 0; i < n; i++ {
		switch k := t.Draw("work", 20); {
		case k < 6: // seek
			b := t.Draw("work", nm)
			if len(visited) > 0 && t.Chance("work", 1, 2) {
				b = visited[len(visited)-1-t.Draw("work", minInt(len(visited), 3))] // revisit something recent
			}
			off := 0
			if sizes[b] > 0 {
				switch t.Draw("work", 4) {
				case 0:
					off = 0
				case 1:
					off = sizes[b] // the end of the member
				case 2:
					off = sizes[b] - 1
				default:
					off = t.Draw("work", sizes[b]+1)
				}
			}
			visited = append(visited, b)
			h = append(h, ROp{Op: "seek", Block: b, Off: off})
		case k < 13: // read
			var sz int
			switch t.Draw("work", 7) {
			case 0:
				sz = 0
			case 1:
				sz = 1
			case 2:
				sz = 1 + t.Draw("work", 8)
			case 3:
				sz = sizes[t.Draw("work", nm)] // exactly some member's size
			case 4:
				sz = sizes[t.Draw("work", nm)] + 1
			case 5:
				sz = total + 10
			default:
				sz = 1 + t.Draw("work", 5000)
			}
			h = append(h, ROp{Op: "read", N: sz})
		case k < 15:
			h = append(h, ROp{Op: "byte"})
		case k < 16:
			h = append(h, ROp{Op: "blocked", On: t.Bool("work")})
		case k < 18:
			h = append(h, ROp{Op: "reread"})
		case k < 19 && withCache:
			h = append(h, ROp{Op: "setcache", Cache: cacheKinds[t.Draw("work", 7)], Cap: 1 + t.Draw("work", 5)})
		default:
			h = append(h, ROp{Op: "blocklen"})
		}
	}
	return h
}

func minInt(a, b int) int {
	if a < b {
		return a
	}
	return b
}

// OpResult is what one history operation returned.
type OpResult struct {
	N     int
	Hash  uint64
	Err   string // "", EOF, or the message
	Chunk bgzf.Chunk
	Skip  bool // operation not applicable (e.g. reread without a previous read)
}

func errClass(err error) string {
	switch err {
	case nil:
		return ""
	case io.EOF:
		return "EOF"
	}
	return err.Error()
}

// histRunner executes a history against a reader and the flat model.
type histRunner struct {
	x       *Exec
	flat    *Flat
	r       *bgzf.Reader
	pos     int64
	blocked bool
	lastN   int   // size of the last successful read (for reread)
	lastPos int64 // logical position before it
	lastOK  bool
	crossed bool // some read crossed a member end
	seeks   int
	res     []OpResult
}

// memberAvail returns the bytes available before the end of the member
// holding the byte at pos (Blocked mode); 0 at the end of the data.
func (h *histRunner) memberAvail(pos int64) int64 {
	f := h.flat
	for i := range f.Members {
		l := int64(len(f.Members[i].Payload))
		if l > 0 && f.Start[i] <= pos && pos < f.Start[i]+l {
			return f.Start[i] + l - pos
		}
	}
	return 0
}

// checkRead validates one read result against the flat model and advances pos.
func (h *histRunner) checkRead(i int, what string, want int, got []byte, err error) *Violation {
	f := h.flat
	total := int64(len(f.Data))
	n := int64(len(got))
	if h.pos+n > total || !bytes.Equal(got, f.Data[h.pos:h.pos+n]) {
		return Mismatch("wrong-bytes", "op %d %s: the %d bytes returned are not the flat stream's bytes at logical position %d (first difference at +%d)", i, what, n, h.pos, firstDiff(got, f.Data[h.pos:minI64(h.pos+n, total)]))
	}
	avail := total - h.pos
	if h.blocked {
		avail = h.memberAvail(h.pos)
	}
	full := int64(want)
	if full > avail {
		full = avail
	}
	if n > full {
		return Mismatch("read-past-boundary", "op %d %s: returned %d bytes but only %d are available before the %s", i, what, n, full, h.boundaryName())
	}
	if err != nil && err != io.EOF {
		return Mismatch("read-error", "op %d %s at logical position %d: %v", i, what, h.pos, err)
	}
	if n < int64(want) {
		// short: legal only at the end of the data (or block, when Blocked), with io.EOF
		if n != full {
			return Mismatch("short-read", "op %d %s: %d of %d bytes returned although %d are available before the %s (err=%v)", i, what, n, want, full, h.boundaryName(), err)
		}
		if err != io.EOF {
			return Mismatch("short-read-no-eof", "op %d %s: short read (%d of %d) at the %s did not report io.EOF (err=%v)", i, what, n, want, h.boundaryName(), err)
		}
	} else if err == io.EOF {
		// full read: io.EOF only if the read ended at the boundary
		atEnd := h.pos+n == total || (h.blocked && n == avail)
		if !atEnd && want > 0 {
			return Mismatch("early-eof", "op %d %s: io.EOF after a full read of %d bytes at logical position %d, %d bytes before the end", i, what, n, h.pos, total-h.pos-n)
		}
		if want == 0 && h.pos != total && !(h.blocked && avail == 0) {
			return Mismatch("early-eof", "op %d %s: io.EOF for an empty read at logical position %d of %d", i, what, h.pos, total)
		}
	}
	if n > 0 {
		lc := h.r.LastChunk()
		b, okb := f.Translate(lc.Begin.File, lc.Begin.Block)
		e, oke := f.Translate(lc.End.File, lc.End.Block)
		if !okb || !oke || b != h.pos || e != h.pos+n {
			return Mismatch("lastchunk", "op %d %s: read %d bytes at logical position %d but LastChunk = %v translates to [%d(%v),%d(%v))", i, what, n, h.pos, lc, b, okb, e, oke)
		}
		if h.memberAvail(h.pos) < n {
			h.crossed = true
		}
		h.lastN, h.lastPos, h.lastOK = int(n), h.pos, true
	}
	h.pos += n
	return nil
}

func (h *histRunner) boundaryName() string {
	if h.blocked {
		return "end of the block"
	}
	return "end of the data"
}

func minI64(a, b int64) int64 {
	if a < b {
		return a
	}
	return b
}

// run executes the history. setCache is honoured only if caches is true.
func (h *histRunner) run(hist []ROp, caches bool) *Violation {
	f := h.flat
	for i, op := range hist {
		var res OpResult
		switch op.Op {
		case "read":
			buf := make([]byte, op.N)
			n, err := h.r.Read(buf)
			if n < 0 || n > op.N {
				return Mismatch("read-count", "op %d Read(%d) returned n=%d", i, op.N, n)
			}
			if v := h.checkRead(i, fmt.Sprintf("Read(%d)", op.N), op.N, buf[:n], err); v != nil {
				return v
			}
			res = OpResult{N: n, Hash: hashBytes(buf[:n]), Err: errClass(err), Chunk: h.r.LastChunk()}
		case "byte":
			b, err := h.r.ReadByte()
			var got []byte
			if err == nil || (err == io.EOF && h.blocked) {
				// in Blocked mode the last byte of a block may come with io.EOF
				if err == nil {
					got = []byte{b}
				}
			}
			if v := h.checkRead(i, "ReadByte", 1, got, err); v != nil {
				return v
			}
			res = OpResult{N: len(got), Hash: hashBytes(got), Err: errClass(err), Chunk: h.r.LastChunk()}
		case "seek":
			m := f.Members[op.Block]
			off := bgzf.Offset{File: m.Off, Block: uint16(op.Off)}
			err := h.r.Seek(off)
			if err != nil {
				return Mismatch("seek-error", "op %d Seek(%v) to a valid offset (member %d of %d bytes) = %v", i, off, op.Block, len(m.Payload), err)
			}
			h.pos = f.Start[op.Block] + int64(op.Off)
			h.seeks++
			res = OpResult{Chunk: h.r.LastChunk()}
		case "blocked":
			h.r.Blocked = op.On
			h.blocked = op.On
		case "reread":
			if !h.lastOK || h.blocked {
				res.Skip = true
				break
			}
			// seeking to a reported Begin replays the same bytes
			lc := h.r.LastChunk()
			if p, ok := f.Translate(lc.Begin.File, lc.Begin.Block); !ok || p != h.lastPos {
				res.Skip = true // LastChunk was changed by a seek since
				break
			}
			if err := h.r.Seek(lc.Begin); err != nil {
				return Mismatch("seek-error", "op %d Seek(LastChunk.Begin=%v) = %v", i, lc.Begin, err)
			}
			h.pos = h.lastPos
			h.seeks++
			buf := make([]byte, h.lastN)
			n, err := h.r.Read(buf)
			if v := h.checkRead(i, fmt.Sprintf("reread Read(%d) after Seek(LastChunk.Begin)", h.lastN), h.lastN, buf[:n], err); v != nil {
				return v
			}
			res = OpResult{N: n, Hash: hashBytes(buf[:n]), Err: errClass(err), Chunk: h.r.LastChunk()}
		case "blocklen":
			res = OpResult{N: h.r.BlockLen()}
		case "setcache":
			if caches {
				h.r.SetCache(mkCache(op.Cache, op.Cap))
			}
		}
		h.x.Fold("hist", uint64(res.N), res.Hash, hashStr(res.Err))
		h.res = append(h.res, res)
	}
	return nil
}

func shrinkHist(h []ROp) [][]ROp {
	var out [][]ROp
	if len(h) > 2 {
		out = append(out, append([]ROp(nil), h[:len(h)/2]...), append([]ROp(nil), h[len(h)/2:]...))
	}
	for i := range h {
		out = append(out, append(append([]ROp(nil), h[:i]...), h[i+1:]...))
	}
	for i, op := range h {
		if op.Op == "read" && op.N > 1 {
			c := append([]ROp(nil), h...)
			c[i].N = op.N / 2
			out = append(out, c)
		}
		if op.Op == "seek" && op.Off > 0 {
			c := append([]ROp(nil), h...)
			c[i].Off = 0
			out = append(out, c)
		}
	}
	return out
}

// shrinkFileSpec proposes simpler files together with the history adjusted
// to them (seeks into removed members are dropped or re-indexed).
func shrinkFileSpec(fs FileSpec, hist []ROp) ([]FileSpec, [][]ROp) {
	var fo []FileSpec
	var ho [][]ROp
	for i := range fs.Members {
		if len(fs.Members) == 1 {
			break
		}
		n := fs
		n.Members = append(append([]Payload(nil), fs.Members[:i]...), fs.Members[i+1:]...)
		var nh []ROp
		ok := true
		for _, op := range hist {
			if op.Op == "seek" {
				if op.Block == i {
					ok = false
					break
				}
				if op.Block > i {
					op.Block--
				}
			}
			nh = append(nh, op)
		}
		if ok {
			fo = append(fo, n)
			ho = append(ho, nh)
		}
	}
	for i, m := range fs.Members {
		if m.Len > 1 {
			n := fs
			n.Members = append([]Payload(nil), fs.Members...)
			n.Members[i].Len = m.Len / 2
			nh := append([]ROp(nil), hist...)
			for j := range nh {
				if nh[j].Op == "seek" && nh[j].Block == i && nh[j].Off > n.Members[i].Len {
					nh[j].Off = n.Members[i].Len
				}
			}
			fo = append(fo, n)
			ho = append(ho, nh)
		}
	}
	if fs.ExtraA || fs.ExtraB || fs.Stored || fs.ExtraBC {
		n := fs
		n.ExtraA, n.ExtraB, n.Stored, n.ExtraBC = false, false, false, false
		fo = append(fo, n)
		ho = append(ho, hist)
	}
	return fo, ho
}
