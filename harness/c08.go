package harness

import (
	"bytes"
	"compress/gzip"
	"fmt"
	"io"

	"github.com/biogo/hts/bgzf"
)

// C08 — BGZF output conformance, determinism, EOF marker.

type c08Case struct {
	// Boundary > 0: the script is one full incompressible block and the
	// header carries an Extra subfield sized so that the member is predicted
	// to be exactly Boundary bytes long (the 64 KiB limit is probed from
	// both sides).
	Boundary int    `json:"boundary,omitempty"`
	W        WCase  `json:"w"`
	WCs      [2]int `json:"other_wcs"` // the script is executed under W.WC and these
	Fault    *Fault `json:"fault,omitempty"`
	// RAEOF: the io.ReaderAt handed to HasEOF returns the final bytes of the
	// file together with io.EOF (legal for an io.ReaderAt).
	RAEOF bool `json:"readat_eof_with_data,omitempty"`
}

type c08 struct{}

func init() { register(c08{}) }

func (c08) ID() string { return "C08" }
func (c08) Runs(tier string) int {
	if tier == "quick" {
		return 5000
	}
	return 0
}
func (c08) New() interface{} { return &c08Case{} }
func (c08) Rule() string {
	return "seeded writer scripts with drawn gzip header settings (Name, Comment, well-formed Extra subfields, ModTime, OS), levels, each executed under three (wc, schedule) pairs; output parsed by an independent RFC1952/BGZF framing validator and by compress/gzip; 1 in 6 runs injects one failing underlying write; bgzf.HasEOF is asked through a simulated io.ReaderAt that in 1 of 3 runs returns the final bytes together with io.EOF. non-trivial: >=2 members besides the marker AND the three executions had pairwise different schedule signatures; distinct = (case, schedule signatures)"
}

func (c08) Gen(t *Tape, tier string, run int) interface{} {
	c := &c08Case{W: genWCase(t, true)}
	if t.Chance("work", 1, 12) {
		// a member aimed at the 64 KiB limit
		c.Boundary = 65530 + t.Draw("work", 10)
		c.W.Level = t.Pick("work", 0, 0, 1, -1)
		c.W.Header = HeaderOpts{OS: -1}
		pl := Payload{Len: bs, Kind: "random", Seed: uint32(t.Draw("work", 1<<30))}
		c.W.Ops = []WOp{{Op: "write", P: pl}}
		base := len(EncodeMember(pl.Bytes(), MemberOpts{Level: c.W.Level, OS: 0xff}))
		if d := c.Boundary - base - 4; d >= 0 {
			c.W.Header.Extra = []Subfield{{SI1: 'Z', SI2: 'z', Data: make([]byte, d)}}
		} else {
			c.Boundary = 0
		}
	} else if t.Chance("work", 1, 25) {
		// a modification time whose little-endian bytes spell the BC subfield prefix
		c.W.Header.MTime = 0x00024342
	}
	c.WCs[0] = wcChoices[t.Draw("work", len(wcChoices))]
	c.WCs[1] = wcChoices[t.Draw("work", len(wcChoices))]
	if t.Chance("work", 1, 6) {
		c.Fault = &Fault{Op: "write", At: t.Draw("work", 5), Kind: []string{"err", "partial"}[t.Draw("work", 2)], Persistent: t.Bool("work")}
	}
	c.RAEOF = t.Chance("work", 1, 3)
	return c
}

// conformance checks one produced stream against the statement.
func conformance(img, written []byte, w *WCase) *Violation {
	ms, stop, why := ParseBGZF(img)
	if why != nil || stop != len(img) {
		return Mismatch("framing", "output is not a concatenation of valid BGZF members: %v", why)
	}
	var cat []byte
	for i, m := range ms {
		if m.Len > specMaxMember {
			return Mismatch("member-size", "member %d is %d bytes long", i, m.Len)
		}
		if len(m.Payload) > specMaxPayload {
			return Mismatch("payload-size", "member %d carries %d payload bytes", i, len(m.Payload))
		}
		nbc := 0
		for _, sf := range m.Extra {
			if sf.SI1 == 'B' && sf.SI2 == 'C' {
				nbc++
			}
		}
		if nbc != 1 {
			return Mismatch("bc-subfield", "member %d has %d BC subfields", i, nbc)
		}
		cat = append(cat, m.Payload...)
	}
	if !bytes.Equal(cat, written) {
		return Mismatch("payload", "members decode to %d bytes, %d were written; first difference at %d", len(cat), len(written), firstDiff(cat, written))
	}
	// a standard multi-member gzip decoder expands it to the written data
	zr, err := gzip.NewReader(bytes.NewReader(img))
	if err != nil {
		return Mismatch("gzip-open", "compress/gzip rejects the stream: %v", err)
	}
	got, err := io.ReadAll(zr)
	if err != nil {
		return Mismatch("gzip-read", "compress/gzip fails after %d bytes: %v", len(got), err)
	}
	if !bytes.Equal(got, written) {
		return Mismatch("gzip-data", "compress/gzip expands the stream to %d bytes, %d were written", len(got), len(written))
	}
	return nil
}

func (c08) Exec(x *Exec, ci interface{}) *Verdict {
	c := ci.(*c08Case)
	vd := &Verdict{}
	written := c.W.Written()
	wcs := []int{c.W.WC, c.WCs[0], c.WCs[1]}
	var imgs [][]byte
	var sigs []uint64
	for i, wc := range wcs {
		w := c.W
		w.WC = wc
		file := &File{X: x, Name: "f", MaxDelay: c.W.MaxDelay, EOFWithData: c.RAEOF}
		if c.Fault != nil {
			file.Faults = []Fault{*c.Fault}
		}
		var werr *apiErr
		var ctorErr error
		var hasEOF bool
		var hasEOFErr error
		x.Procs = c.W.Procs
		res := x.RunSim(fmt.Sprintf("write%d", i), w.estSteps(), func() {
			bw, err := w.newWriter(file)
			if err != nil {
				ctorErr = err
				return
			}
			werr = runWriterScript(x, &w, bw, nil)
			hasEOF, hasEOFErr = bgzf.HasEOF(file.RA())
		})
		if v, inc := StructuralViolation("write", &res); v != nil || inc != "" {
			if c.Fault != nil && v != nil {
				x.Stats.Extra["fault_run_hang_left_to_C09"]++
				return vd
			}
			vd.V, vd.Inconcl = v, inc
			return vd
		}
		if ctorErr != nil {
			vd.V = Mismatch("ctor", "NewWriterLevel = %v", ctorErr)
			return vd
		}
		img := file.Data
		endsWithMarker := len(img) >= len(SpecEOF) && bytes.Equal(img[len(img)-len(SpecEOF):], SpecEOF)
		closedOK := werr == nil
		if c.Fault == nil || len(file.Fired) == 0 {
			if werr != nil && c.Boundary > specMaxMember {
				// the header settings are not "small enough for a member to fit
				// in 64 KiB": outside the quantifier, the writer may refuse
				x.Probe("boundary_member_refused")
				return vd
			}
			if werr != nil {
				vd.V = Mismatch("write-api-error", "fault-free writer (wc=%d): op %d: %s", wc, werr.Op, werr.Msg)
				return vd
			}
			if c.Boundary > 0 {
				x.Probe(fmt.Sprintf("boundary_member_%d_accepted", c.Boundary))
			}
			if v := conformance(img[:len(img)-len(SpecEOF)*b2i(endsWithMarker)], written, &w); v != nil {
				v.Msg = fmt.Sprintf("wc=%d: %s", wc, v.Msg)
				vd.V = v
				return vd
			}
		} else {
			// fault configuration: what was delivered is whole members followed
			// by at most the torn part of the one failed write
			x.Probe("fault_fired")
			// everything before the failed write is whole members, and nothing
			// follows the (possibly torn) failed write
			for _, j := range file.Journal {
				if j.Err {
					if _, stop, why := ParseBGZF(img[:j.Off]); why != nil || stop != j.Off {
						vd.V = Mismatch("fault-partial-member", "wc=%d: the %d bytes delivered before the failed write %d are not whole members: %v", wc, j.Off, j.Call, why)
						return vd
					}
					if len(img) != j.Off+j.N {
						vd.V = Mismatch("fault-append-after-failure", "wc=%d: %d bytes were appended after the failed write %d", wc, len(img)-j.Off-j.N, j.Call)
						return vd
					}
					break
				}
			}
			if closedOK {
				vd.V = Mismatch("fault-swallowed", "wc=%d: underlying write failed (%v) but Close returned nil", wc, file.Fired)
				return vd
			}
		}
		if endsWithMarker != closedOK {
			vd.V = Mismatch("eof-marker", "wc=%d: Close error = %v but stream ends with the EOF marker = %v", wc, werrMsg(werr), endsWithMarker)
			return vd
		}
		if hasEOFErr != nil {
			// also for a stream shorter than the marker (what a writer that
			// failed early leaves behind): the answer is "no", not an error
			vd.V = Mismatch("haseof-error", "wc=%d: HasEOF = %v on a %d byte stream", wc, hasEOFErr, len(img))
			return vd
		}
		if hasEOFErr == nil && hasEOF != endsWithMarker {
			vd.V = Mismatch("haseof", "wc=%d: HasEOF reports %v, the stream ends with the marker: %v", wc, hasEOF, endsWithMarker)
			return vd
		}
		imgs = append(imgs, append([]byte(nil), img...))
		sigs = append(sigs, res.SchedSig)
	}
	if c.Fault == nil {
		for i := 1; i < len(imgs); i++ {
			if !bytes.Equal(imgs[0], imgs[i]) {
				vd.V = Mismatch("concurrency-dependent-bytes", "output with wc=%d (%d bytes) differs from output with wc=%d (%d bytes) at offset %d", wcs[0], len(imgs[0]), wcs[i], len(imgs[i]), firstDiff(imgs[0], imgs[i]))
				return vd
			}
		}
	}
	ms, _, _ := ParseBGZF(imgs[0])
	vd.NonTrivial = c.Fault == nil && len(ms) >= 3 && sigs[0] != sigs[1] && sigs[1] != sigs[2] && sigs[0] != sigs[2]
	if c.W.Header.Name != "" || c.W.Header.Comment != "" {
		x.Probe("name_or_comment_set")
	}
	if len(c.W.Header.Extra) > 0 {
		x.Probe("extra_subfields_set")
	}
	vd.Sample = map[string]interface{}{"case": c, "members": len(ms), "bytes_out": len(imgs[0]), "steps": x.Steps}
	return vd
}

func b2i(b bool) int {
	if b {
		return 1
	}
	return 0
}

func werrMsg(e *apiErr) string {
	if e == nil {
		return "<nil>"
	}
	return e.Msg
}

func (c08) Shrinks(ci interface{}) []interface{} {
	c := ci.(*c08Case)
	var out []interface{}
	for _, w := range shrinkWCase(c.W) {
		n := *c
		n.W = w
		out = append(out, &n)
	}
	if c.WCs != [2]int{1, 1} {
		n := *c
		n.WCs = [2]int{1, 1}
		out = append(out, &n)
	}
	if c.Fault != nil {
		n := *c
		n.Fault = nil
		out = append(out, &n)
	}
	if c.RAEOF {
		n := *c
		n.RAEOF = false
		out = append(out, &n)
	}
	return out
}
