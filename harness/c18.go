package harness

import (
	"fmt"
	"io"
	"sort"

	"github.com/biogo/hts/bam"
	"github.com/biogo/hts/sam"
)

// C18 — Merger output is a loss-free, ordered merge re-linked to the merged header.

type c18Input struct {
	Refs   []RefSpec `json:"refs"`
	N      int       `json:"n"` // records
	Seed   uint32    `json:"seed"`
	RD     int       `json:"rd"`
	PerMem int       `json:"records_per_member"`
}

type c18Case struct {
	SO     string     `json:"so"`   // unknown, unsorted, queryname, coordinate
	Less   string     `json:"less"` // for unknown: "", "pos"
	Inputs []c18Input `json:"inputs"`
	Fault  *Fault     `json:"fault,omitempty"`
	FaultI int        `json:"fault_input"`
	Chunk  int        `json:"chunk"`
	Procs  int        `json:"procs"`
	Stmt   bool       `json:"stmt_yields,omitempty"`
	IOQ    int        `json:"io_quirks,omitempty"` // bit 0: final bytes arrive with io.EOF; bit 1: Read sometimes returns (0, nil)
}

type c18 struct{}

func init() { register(c18{}) }

func (c18) ID() string { return "C18" }
func (c18) Runs(tier string) int {
	if tier == "quick" {
		return 8000
	}
	return 0
}
func (c18) New() interface{} { return &c18Case{} }
func (c18) CrashProne() bool { return true }
func (c18) Rule() string {
	return "k in 1..4 BAM inputs (some empty) built by the independent encoders, each sorted in the common declared order (coordinate = order of the merged reference list, computed by a small model and confirmed against Merger.Header()); headers with equal / disjoint / overlapping reference lists and lists whose name order differs from header order, shared reference names described with identical or with differing further @SQ tags (NewMerger may refuse the merge only in the differing case); all four sort orders plus a custom less; mates on other references; each input read through its own bam.Reader (rd 1..3) on its own simulated file with short reads; 1 in 4 runs makes one input fail at a drawn underlying read. Oracles: multiset equality by unique names, sortedness under the declared order, per-input order preserved, io.EOF only after all inputs ended cleanly (a fault must surface as a non-EOF error), Ref and MateRef of every returned record are elements of Merger.Header().Refs() with the source's name. non-trivial: k>=2, >=2 inputs non-empty and records of different inputs interleave in the output (or, with a fault, the fault fired mid-merge); distinct = (case, schedule signature)"
}

var c18RefPool = []RefSpec{{Name: "chrB", Len: 5000}, {Name: "chrA", Len: 7000}, {Name: "chrD", Len: 900}, {Name: "chrC", Len: 12000}, {Name: "chrE", Len: 300}}

func (c18) Gen(t *Tape, tier string, run int) interface{} {
	c := &c18Case{SO: []string{"unknown", "unsorted", "queryname", "coordinate", "coordinate"}[t.Draw("work", 5)], Chunk: t.Pick("work", 0, 2, 2), Procs: t.Pick("work", 1, 2, 3)}
	if c.SO == "unknown" && t.Bool("work") {
		c.Less = "pos"
	}
	k := 1 + t.Draw("work", 4)
	mode := t.Draw("work", 4) // 0 equal lists, 1 disjoint, 2 overlapping, 3 permuted
	base := append([]RefSpec(nil), c18RefPool[:2+t.Draw("work", 3)]...)
	for i := 0; i < k; i++ {
		in := c18Input{Seed: uint32(t.Draw("work", 1<<30)), RD: 1 + t.Draw("work", 3), PerMem: 1 + t.Draw("work", 6)}
		switch mode {
		case 0:
			in.Refs = append([]RefSpec(nil), base...)
		case 1:
			in.Refs = []RefSpec{{Name: fmt.Sprintf("only%d_%c", i, 'z'-byte(i)), Len: 1000 + i}, {Name: fmt.Sprintf("also%d", i), Len: 2000}}
		case 2:
			for _, r := range c18RefPool {
				if t.Bool("work") {
					in.Refs = append(in.Refs, r)
				}
			}
		default:
			in.Refs = append([]RefSpec(nil), base...)
			// rotate so that header order differs between inputs and from name order
			rot := t.Draw("work", len(in.Refs))
			in.Refs = append(in.Refs[rot:], in.Refs[:rot]...)
		}
		if !t.Chance("work", 1, 6) {
			in.N = 1 + t.Draw("work", 12)
			if t.Chance("work", 1, 5) {
				in.N = 20 + t.Draw("work", 40)
			}
		}
		c.Inputs = append(c.Inputs, in)
	}
	c.Stmt = t.Chance("work", 1, 5)
	if t.Chance("work", 1, 4) {
		c.FaultI = t.Draw("work", k)
		c.Fault = &Fault{Op: "read", At: 1 + t.Draw("work", 4), Kind: []string{"err", "partial"}[t.Draw("work", 2)], Persistent: true}
		c.Chunk = 2
		if c.Inputs[c.FaultI].N < 20 {
			c.Inputs[c.FaultI].N = 20 + t.Draw("work", 30)
		}
	}
	c.IOQ = t.Pick("work", 0, 0, 1, 2, 3)
	// further @SQ tags: 1 = every input describes a shared reference with
	// the same tags, 2 = drawn per input (descriptions of a shared name may
	// then conflict, which NewMerger may refuse)
	switch t.Pick("work", 0, 0, 1, 1, 2) {
	case 1:
		perName := map[string]string{}
		for i := range c.Inputs {
			for j := range c.Inputs[i].Refs {
				n := c.Inputs[i].Refs[j].Name
				if _, ok := perName[n]; !ok {
					perName[n] = ""
					if t.Chance("work", 1, 2) {
						perName[n] = genRefExtra(t)
					}
				}
				c.Inputs[i].Refs[j].Extra = perName[n]
			}
		}
	case 2:
		for i := range c.Inputs {
			for j := range c.Inputs[i].Refs {
				if t.Chance("work", 1, 2) {
					c.Inputs[i].Refs[j].Extra = genRefExtra(t)
				}
			}
		}
	}
	return c
}

// conflictingRefs reports whether two inputs describe a reference of the same
// name with different tags.
func (c *c18Case) conflictingRefs() bool {
	seen := map[string]string{}
	for _, in := range c.Inputs {
		for _, r := range in.Refs {
			k := fmt.Sprintf("%d%s", r.Len, r.Extra)
			if v, ok := seen[r.Name]; ok && v != k {
				return true
			}
			seen[r.Name] = k
		}
	}
	return false
}

// mergedRefOrder models the merged reference list: the first header's
// references, then every reference of later headers not yet present.
func mergedRefOrder(inputs []c18Input) []RefSpec {
	var out []RefSpec
	has := func(r RefSpec) bool {
		for _, o := range out {
			if o == r {
				return true
			}
		}
		return false
	}
	for _, in := range inputs {
		for _, r := range in.Refs {
			if !has(r) {
				out = append(out, r)
			}
		}
	}
	return out
}

type c18Rec struct {
	spec  RecSpec
	input int
	seq   int
	ref   string // reference name or "*"
	mate  string
}

// buildInputs generates each input's records sorted in the declared order.
func (c *c18Case) buildInputs() (recs [][]c18Rec, imgs [][]byte) {
	merged := mergedRefOrder(c.Inputs)
	rank := func(name string) int {
		for i, r := range merged {
			if r.Name == name {
				return i
			}
		}
		return len(merged) + 1
	}
	for ii, in := range c.Inputs {
		t := NewTape(uint64(in.Seed), "c18-input", ii)
		var rs []c18Rec
		for j := 0; j < in.N; j++ {
			r := RecSpec{Seed: uint32(t.Draw("work", 1<<30)), RefID: -1, NextRef: -1, Pos: -1, NextPos: -1, MapQ: t.Draw("work", 60), SeqLen: t.Draw("work", 30), HasQual: true}
			cr := c18Rec{input: ii, seq: j, ref: "*", mate: "*"}
			if len(in.Refs) > 0 && t.Chance("work", 5, 6) {
				r.RefID = t.Draw("work", len(in.Refs))
				r.Pos = t.Draw("work", in.Refs[r.RefID].Len)
				cr.ref = in.Refs[r.RefID].Name
				switch t.Draw("work", 3) {
				case 0:
					r.NextRef, r.NextPos = r.RefID, t.Draw("work", in.Refs[r.RefID].Len)
				case 1:
					r.NextRef = t.Draw("work", len(in.Refs))
					r.NextPos = t.Draw("work", in.Refs[r.NextRef].Len)
				}
				if r.NextRef >= 0 {
					cr.mate = in.Refs[r.NextRef].Name
				}
			}
			if c.SO != "queryname" {
				r.Name = fmt.Sprintf("i%d_%04d", ii, j)
			} else {
				r.Name = fmt.Sprintf("q%03d_i%d_%04d", t.Draw("work", 40), ii, j)
			}
			r.Aux = []AuxSpec{{Tag: "XZ", Typ: "Z", N: t.Draw("work", 300), Seed: r.Seed}}
			cr.spec = r
			rs = append(rs, cr)
		}
		switch {
		case c.SO == "coordinate":
			sort.SliceStable(rs, func(a, b int) bool {
				ra, rb := rank(rs[a].ref), rank(rs[b].ref)
				if ra != rb {
					return ra < rb
				}
				return rs[a].spec.Pos < rs[b].spec.Pos
			})
		case c.SO == "queryname":
			sort.SliceStable(rs, func(a, b int) bool { return rs[a].spec.Name < rs[b].spec.Name })
		case c.SO == "unknown" && c.Less == "pos":
			sort.SliceStable(rs, func(a, b int) bool { return rs[a].spec.Pos < rs[b].spec.Pos })
		}
		for j := range rs {
			rs[j].seq = j
		}
		hdr := HdrSpec{SO: c.SO, Refs: in.Refs}
		stream := hdr.EncodeBAMHeader()
		var img []byte
		img = append(img, EncodeMember(stream, MemberOpts{Level: 1, OS: 0xff})...)
		var cur []byte
		for j := range rs {
			cur = append(cur, rs[j].spec.EncodeBAM()...)
			if (j+1)%in.PerMem == 0 || j == len(rs)-1 {
				img = append(img, EncodeMember(cur, MemberOpts{Level: 1, OS: 0xff})...)
				cur = nil
			}
		}
		img = append(img, SpecEOF...)
		recs = append(recs, rs)
		imgs = append(imgs, img)
	}
	return recs, imgs
}

func (p c18) Exec(x *Exec, ci interface{}) *Verdict {
	c := ci.(*c18Case)
	vd := &Verdict{}
	x.StmtAll = c.Stmt
	recs, imgs := c.buildInputs()
	merged := mergedRefOrder(c.Inputs)
	byName := map[string]*c18Rec{}
	total := 0
	for i := range recs {
		for j := range recs[i] {
			byName[recs[i][j].spec.Name] = &recs[i][j]
			total++
		}
	}
	var files []*File
	for i, img := range imgs {
		f := &File{X: x, Name: fmt.Sprintf("in%d", i), Data: img, Chunk: c.Chunk, EOFWithData: c.IOQ&1 != 0, ZeroReads: c.IOQ&2 != 0}
		if c.Fault != nil && c.FaultI == i {
			f.Faults = []Fault{*c.Fault}
		}
		files = append(files, f)
	}
	x.Procs = c.Procs
	var out []*sam.Record
	var endErr, openErr, mergerErr error
	var hdr *sam.Header
	est := 300
	for _, img := range imgs {
		est += estReadSteps(len(img), c.Chunk, "read+seek", 0)*3/2 + 100
	}
	res := x.RunSim("merge", est+30*total, func() {
		var rs []*bam.Reader
		for i, f := range files {
			r, err := bam.NewReader(f.As("read+seek"), c.Inputs[i].RD)
			if err != nil {
				openErr = err
				return
			}
			rs = append(rs, r)
		}
		var less func(a, b *sam.Record) bool
		if c.Less == "pos" {
			less = func(a, b *sam.Record) bool { return a.Pos < b.Pos }
		}
		m, err := bam.NewMerger(less, rs...)
		if err != nil {
			mergerErr = err
			return
		}
		hdr = m.Header()
		for {
			rec, err := m.Read()
			if err != nil {
				endErr = err
				break
			}
			if rec == nil {
				endErr = fmt.Errorf("Merger.Read returned nil, nil")
				break
			}
			out = append(out, rec)
			if len(out) > total+5 {
				break
			}
		}
		for _, r := range rs {
			r.Close()
		}
	})
	fired := false
	for _, f := range files {
		if len(f.Fired) > 0 {
			fired = true
		}
	}
	if v, inc := StructuralViolation("merge", &res); v != nil || inc != "" {
		vd.V, vd.Inconcl = v, inc
		return vd
	}
	if openErr != nil {
		if fired {
			x.Stats.Extra["fault_hit_NewReader"]++
			return vd
		}
		vd.V = Mismatch("open", "bam.NewReader on a valid input = %v", openErr)
		return vd
	}
	if mergerErr != nil {
		if fired {
			x.Stats.Extra["fault_surfaced_in_NewMerger"]++
			return vd
		}
		if c.conflictingRefs() {
			// descriptions of one reference name disagree: refusing the
			// merge is a legitimate answer
			x.Stats.Extra["conflicting_reference_descriptions_refused"]++
			return vd
		}
		vd.V = Mismatch("newmerger", "NewMerger = %v", mergerErr)
		return vd
	}
	// the merged header must list the references in the modelled order,
	// otherwise the inputs were not sorted in the declared order
	if c.SO == "coordinate" {
		got := hdr.Refs()
		same := len(got) == len(merged)
		for i := 0; same && i < len(got); i++ {
			same = got[i].Name() == merged[i].Name
		}
		if !same {
			x.Stats.Extra["precondition_merged_order_differs_from_model"]++
			vd.Inconcl = "precondition_unknown"
			return vd
		}
	}
	inHeader := map[*sam.Reference]bool{}
	for _, r := range hdr.Refs() {
		inHeader[r] = true
	}
	rank := func(name string) int {
		for i, r := range merged {
			if r.Name == name {
				return i
			}
		}
		return len(merged) + 1
	}
	less := func(a, b *c18Rec) bool {
		switch {
		case c.SO == "coordinate":
			ra, rb := rank(a.ref), rank(b.ref)
			if ra != rb {
				return ra < rb
			}
			return ra <= len(merged) && a.spec.Pos < b.spec.Pos
		case c.SO == "queryname":
			return a.spec.Name < b.spec.Name
		case c.SO == "unknown" && c.Less == "pos":
			return a.spec.Pos < b.spec.Pos
		}
		return false
	}
	seen := map[string]bool{}
	lastSeq := map[int]int{}
	var prev *c18Rec
	interleave := false
	concat := c.SO == "unsorted" || (c.SO == "unknown" && c.Less == "")
	for i, rec := range out {
		cr := byName[rec.Name]
		if cr == nil {
			vd.V = Mismatch("foreign-record", "output record %d %q is not an input record", i, rec.Name)
			return vd
		}
		if seen[rec.Name] {
			vd.V = Mismatch("duplicate", "output record %d %q was already returned", i, rec.Name)
			return vd
		}
		seen[rec.Name] = true
		if ls, ok := lastSeq[cr.input]; ok && cr.seq < ls {
			vd.V = Mismatch("input-order", "output record %d %q (input %d #%d) comes after #%d of the same input", i, rec.Name, cr.input, cr.seq, ls)
			return vd
		}
		lastSeq[cr.input] = cr.seq
		if prev != nil {
			if concat {
				if cr.input < prev.input {
					vd.V = Mismatch("concat-order", "unsorted merge is not the concatenation of the inputs: record %d %q of input %d follows a record of input %d", i, rec.Name, cr.input, prev.input)
					return vd
				}
			} else if less(cr, prev) {
				vd.V = Mismatch("not-sorted:"+c.SO+c.Less, "output is not sorted by %s%s: record %d %q (ref %s pos %d) follows %q (ref %s pos %d); merged reference order %v", c.SO, c.Less, i, rec.Name, cr.ref, cr.spec.Pos, prev.spec.Name, prev.ref, prev.spec.Pos, refNames(merged))
				return vd
			}
			if cr.input != prev.input {
				interleave = true
			}
		}
		prev = cr
		// references belong to the merged header and keep their names
		if (rec.Ref == nil) != (cr.ref == "*") || (rec.Ref != nil && (rec.Ref.Name() != cr.ref || !inHeader[rec.Ref])) {
			vd.V = Mismatch("ref-link", "record %q: Ref is %v (in merged header: %v), source reference %s", rec.Name, rec.Ref, inHeader[rec.Ref], cr.ref)
			return vd
		}
		if (rec.MateRef == nil) != (cr.mate == "*") || (rec.MateRef != nil && (rec.MateRef.Name() != cr.mate || !inHeader[rec.MateRef])) {
			vd.V = Mismatch("mate-link", "record %q: MateRef is %v (element of the merged header's Refs(): %v), source mate reference %s", rec.Name, rec.MateRef, inHeader[rec.MateRef], cr.mate)
			return vd
		}
	}
	if fired {
		x.Probe("input_failed_mid_merge")
		if endErr == io.EOF {
			vd.V = Mismatch("fault-dropped", "input %d failed (%v) but the merge ended with a clean io.EOF after %d of %d records", c.FaultI, files[c.FaultI].Fired, len(out), total)
			return vd
		}
		if endErr == nil {
			vd.V = Mismatch("no-end", "Merger.Read keeps returning records (%d, inputs hold %d)", len(out), total)
			return vd
		}
		vd.NonTrivial = len(c.Inputs) >= 2 && len(out) > 0
	} else {
		if endErr != io.EOF {
			vd.V = Mismatch("end-error", "fault-free merge ended with %v after %d of %d records", endErr, len(out), total)
			return vd
		}
		if len(out) != total {
			for n := range byName {
				if !seen[n] {
					vd.V = Mismatch("lost-record", "merge ended with io.EOF after %d of %d records; e.g. %q (input %d) was never returned", len(out), total, n, byName[n].input)
					return vd
				}
			}
		}
		nonEmpty := 0
		for _, in := range c.Inputs {
			if in.N > 0 {
				nonEmpty++
			} else {
				x.Probe("empty_input")
			}
		}
		vd.NonTrivial = len(c.Inputs) >= 2 && nonEmpty >= 2 && (interleave || concat)
	}
	vd.Sample = map[string]interface{}{"case": c, "records": total, "returned": len(out), "end": fmt.Sprint(endErr), "merged_refs": refNames(merged), "steps": x.Steps}
	return vd
}

func refNames(rs []RefSpec) []string {
	var out []string
	for _, r := range rs {
		out = append(out, r.Name)
	}
	return out
}

func (c18) Shrinks(ci interface{}) []interface{} {
	c := ci.(*c18Case)
	var out []interface{}
	for i := range c.Inputs {
		if len(c.Inputs) > 1 && !(c.Fault != nil && c.FaultI == i) {
			n := *c
			n.Inputs = append(append([]c18Input(nil), c.Inputs[:i]...), c.Inputs[i+1:]...)
			if c.FaultI > i {
				n.FaultI--
			}
			out = append(out, &n)
		}
		if c.Inputs[i].N > 0 {
			n := *c
			n.Inputs = append([]c18Input(nil), c.Inputs...)
			n.Inputs[i].N = c.Inputs[i].N / 2
			out = append(out, &n)
			n2 := *c
			n2.Inputs = append([]c18Input(nil), c.Inputs...)
			n2.Inputs[i].N = c.Inputs[i].N - 1
			out = append(out, &n2)
		}
		if c.Inputs[i].RD != 1 {
			n := *c
			n.Inputs = append([]c18Input(nil), c.Inputs...)
			n.Inputs[i].RD = 1
			out = append(out, &n)
		}
	}
	if c.Fault != nil {
		n := *c
		n.Fault = nil
		out = append(out, &n)
	}
	if c.Chunk != 0 && c.Fault == nil {
		n := *c
		n.Chunk = 0
		out = append(out, &n)
	}
	if c.IOQ != 0 {
		n := *c
		n.IOQ = 0
		out = append(out, &n)
	}
	return out
}
