package harness

import (
	"fmt"
	"sort"
	"testing"
	"testing/synctest"

	"github.com/biogo/hts/simhook"
)

// Violation describes one failed oracle.
type Violation struct {
	Kind   string          `json:"kind"`  // deadlock, livelock, panic, leak, mismatch, ...
	Class  string          `json:"class"` // stable key: same defect ⇒ same class (used by shrinking and known-findings matching)
	Msg    string          `json:"msg"`
	Result *simhook.Result `json:"sim_result,omitempty"`
}

// Verdict is the outcome of executing one case.
type Verdict struct {
	V          *Violation
	NonTrivial bool
	Inconcl    string // non-empty: inconclusive reason (budget, porcupine_unknown, resource_limit)
	Sample     interface{}
}

// Stats accumulates evidence counters in a worker.
type Stats struct {
	Runs         int            `json:"runs"`
	Sims         int            `json:"sims"`
	Steps        int64          `json:"steps"`
	Decisions    int64          `json:"decisions"`
	Preemptions  int64          `json:"preemptions"`
	NonTrivial   int            `json:"nontrivial"`
	Faults       map[string]int `json:"faults_fired"`
	Policies     map[string]int `json:"policies"`
	Probes       map[string]int `json:"probes"`
	Outcomes     map[string]int `json:"outcomes"`
	Inconclusive map[string]int `json:"inconclusive"`
	KnownHits    map[string]int `json:"known_findings_hit"`
	Sites        map[string]int `json:"sites"`
	SwitchPairs  map[string]int `json:"switch_pairs"`
	Rechecks     int            `json:"determinism_rechecks"`
	RecheckBad   int            `json:"determinism_mismatches"`
	LeakedSims   int            `json:"leaked_sims"`
	CrashPoints  int64          `json:"crash_points"`
	Extra        map[string]int `json:"extra"`
}

func NewStats() *Stats {
	return &Stats{Faults: map[string]int{}, Policies: map[string]int{}, Probes: map[string]int{}, Outcomes: map[string]int{},
		Inconclusive: map[string]int{}, KnownHits: map[string]int{}, Sites: map[string]int{}, SwitchPairs: map[string]int{}, Extra: map[string]int{}}
}

func (s *Stats) Merge(o *Stats) {
	s.Runs += o.Runs
	s.Sims += o.Sims
	s.Steps += o.Steps
	s.Decisions += o.Decisions
	s.Preemptions += o.Preemptions
	s.NonTrivial += o.NonTrivial
	s.Rechecks += o.Rechecks
	s.RecheckBad += o.RecheckBad
	s.LeakedSims += o.LeakedSims
	s.CrashPoints += o.CrashPoints
	mm := func(a, b map[string]int) {
		for k, v := range b {
			a[k] += v
		}
	}
	mm(s.Faults, o.Faults)
	mm(s.Policies, o.Policies)
	mm(s.Probes, o.Probes)
	mm(s.Outcomes, o.Outcomes)
	mm(s.Inconclusive, o.Inconclusive)
	mm(s.KnownHits, o.KnownHits)
	mm(s.Sites, o.Sites)
	mm(s.SwitchPairs, o.SwitchPairs)
	mm(s.Extra, o.Extra)
}

// Exec is the context in which one case executes.
type Exec struct {
	T     *testing.T
	Tape  *Tape
	Stats *Stats // may be a scratch object during shrinking/replay

	Sim *simhook.Sim // current simulation (nil outside)

	// per-run accumulation
	Sig        uint64
	SchedSig   uint64
	Steps      int
	Preempt    int
	SimCount   int
	Leaked     bool
	StmtYields bool
	StmtAll    bool // statement-level yields inside package bgzf too
	Procs      int
	MaxSteps   int
	Results    []simhook.Result
	Trace      func(step, gid int, name, site string)
}

func NewExec(t *testing.T, tape *Tape, st *Stats) *Exec {
	return &Exec{T: t, Tape: tape, Stats: st, Sig: 14695981039346656037, SchedSig: 14695981039346656037, Procs: 1}
}

func mix(h, v uint64) uint64 {
	for i := 0; i < 8; i++ {
		h ^= v & 0xff
		h *= 1099511628211
		v >>= 8
	}
	return h
}

// Probe counts a named rare condition.
func (x *Exec) Probe(name string) { x.Stats.Probes[name]++ }

// Fault counts an injected fault that actually fired.
func (x *Exec) Fault(kind string) { x.Stats.Faults[kind]++ }

// Fold adds an observation to the run signature.
func (x *Exec) Fold(tag string, vals ...uint64) {
	if x.Sim != nil {
		x.Sim.Fold(tag, vals...)
		return
	}
	x.Sig = mix(x.Sig, hashStr(tag))
	for _, v := range vals {
		x.Sig = mix(x.Sig, v)
	}
}

// FoldBytes adds a byte string to the run signature.
func (x *Exec) FoldBytes(tag string, b []byte) {
	if x.Sim != nil {
		x.Sim.FoldBytes(tag, b)
		return
	}
	x.Sig = mix(x.Sig, hashStr(tag))
	x.Sig = mix(x.Sig, hashBytes(b))
}

func hashBytes(b []byte) uint64 {
	h := uint64(14695981039346656037)
	for _, c := range b {
		h ^= uint64(c)
		h *= 1099511628211
	}
	return mix(h, uint64(len(b)))
}

// Yield is a scheduling point for harness-level operations (disk calls).
func (x *Exec) Yield(site string) { simhook.Yield(site) }

// RunSim executes client as goroutine 0 of a fresh simulation inside its own
// synctest bubble and returns the simulator's result.
func (x *Exec) RunSim(name string, estSteps int, client func()) simhook.Result {
	var res simhook.Result
	pol := newPolicy(x.Tape, estSteps)
	// The step budget is a generous multiple of the caller's estimate of the
	// run's synchronisation count; exceeding it is never a verdict by itself
	// (see simhook: a fair phase of the same length follows).
	maxSteps := x.MaxSteps
	if maxSteps == 0 {
		maxSteps = 40*estSteps + 100000
		if x.StmtAll {
			// every statement of package bgzf is a scheduling point in this
			// run: the same work takes far more steps
			maxSteps *= 40
		}
		// A run that livelocks burns twice this budget before the verdict
		// (known-finding runs do so repeatedly): keep the worst case around
		// a minute. Inputs are sized so that legitimate runs stay far below.
		if maxSteps > 3000000 {
			maxSteps = 3000000
		}
	}
	cfg := simhook.Config{
		Pick: func(r []simhook.GInfo, last int, lr bool) int {
			return pol.pick(x.Tape, r, last, lr)
		},
		Choose:        func(stream string, n int) int { return x.Tape.Draw(stream, n) },
		Quiesce:       synctest.Wait,
		MaxSteps:      maxSteps,
		Procs:         x.Procs,
		StmtYields:    x.StmtYields,
		StmtYieldsAll: x.StmtAll,
		Trace:         x.Trace,
	}
	var sim *simhook.Sim
	func() {
		defer func() {
			if r := recover(); r != nil {
				// synctest reports goroutines stranded by a deadlocked or
				// panicked simulation when the bubble ends; res is already set.
				if res.Outcome == "" {
					panic(fmt.Sprintf("harness: bubble failed before the simulation reported: %v", r))
				}
			}
		}()
		synctest.Test(x.T, func(t *testing.T) {
			sim = simhook.New(cfg)
			x.Sim = sim
			defer func() { x.Sim = nil }()
			res = sim.Run(client)
		})
	}()
	x.Sim = nil
	x.SimCount++
	x.Steps += res.Steps
	x.Preempt += res.Preemptions
	x.Sig = mix(x.Sig, res.Sig)
	x.SchedSig = mix(x.SchedSig, res.SchedSig)
	st := x.Stats
	st.Sims++
	st.Steps += int64(res.Steps)
	st.Decisions += int64(res.Decisions)
	st.Preemptions += int64(res.Preemptions)
	st.Policies[pol.name]++
	st.Outcomes[name+":"+res.Outcome]++
	if res.Outcome != simhook.OK && res.Outcome != simhook.Budget {
		x.Leaked = true
		st.LeakedSims++
	}
	if sim != nil {
		for k, v := range sim.Sites {
			st.Sites[simhook.StripLine(k)] += v
		}
		for k, v := range sim.Switches {
			st.SwitchPairs[simhook.StripLine(k[0])+" -> "+simhook.StripLine(k[1])] += v
		}
	}
	x.Results = append(x.Results, res)
	return res
}

// StructuralViolation converts a simulator outcome into a violation (nil
// for ok). Inconclusive outcomes are reported through the second result.
func StructuralViolation(phase string, res *simhook.Result) (*Violation, string) {
	switch res.Outcome {
	case simhook.OK:
		return nil, ""
	case simhook.Budget:
		return nil, "budget_exceeded"
	case simhook.Foreign:
		panic("harness: " + res.Detail)
	case simhook.Deadlock, simhook.Livelock:
		sites := res.StuckSites()
		return &Violation{Kind: res.Outcome, Class: fmt.Sprintf("%s:%s:%v", res.Outcome, phase, sites),
			Msg: fmt.Sprintf("%s in %s: stuck goroutines %v", res.Outcome, phase, describe(res.Stuck)), Result: res}, ""
	case simhook.Panic:
		who := "?"
		if res.PanicG != nil {
			who = simhook.StripLine(res.PanicG.Name)
		}
		return &Violation{Kind: "panic", Class: fmt.Sprintf("panic:%s:%s:%s", phase, who, noDigits(firstLine(res.PanicValue))),
			Msg: fmt.Sprintf("panic in %s (goroutine %s): %s\n%s", phase, who, res.PanicValue, trimStack(res.PanicStack)), Result: res}, ""
	}
	panic("harness: unknown outcome " + res.Outcome)
}

func describe(gs []simhook.GInfo) []string {
	var out []string
	for _, g := range gs {
		out = append(out, fmt.Sprintf("g%d[%s]@%s", g.ID, simhook.StripLine(g.Name), g.Site))
	}
	sort.Strings(out)
	return out
}

func firstLine(s string) string {
	for i := 0; i < len(s); i++ {
		if s[i] == '\n' {
			return s[:i]
		}
	}
	if len(s) > 120 {
		return s[:120]
	}
	return s
}

func trimStack(s string) string {
	if len(s) > 3000 {
		return s[:3000] + "\n..."
	}
	return s
}

// Mismatch builds an oracle violation.
func Mismatch(class, format string, a ...interface{}) *Violation {
	return &Violation{Kind: "mismatch", Class: "mismatch:" + class, Msg: fmt.Sprintf(format, a...)}
}

// completionOrderProbe watches the scheduler trace for compressor
// goroutines finishing in an order different from their creation (=
// submission) order. The returned function stops watching and reports.
func completionOrderProbe(x *Exec) func() bool {
	var order []int
	x.Trace = func(step, gid int, name, site string) {
		if containsStr(name, "writeBlock") && containsStr(site, "send:c.flush") {
			order = append(order, gid)
		}
	}
	return func() bool {
		x.Trace = nil
		for i := 1; i < len(order); i++ {
			if order[i] < order[i-1] {
				return true
			}
		}
		return false
	}
}

// noDigits replaces digit runs so that classes do not depend on values.
func noDigits(s string) string {
	out := make([]byte, 0, len(s))
	prev := false
	for i := 0; i < len(s); i++ {
		if s[i] >= '0' && s[i] <= '9' {
			if !prev {
				out = append(out, '#')
			}
			prev = true
			continue
		}
		prev = false
		out = append(out, s[i])
	}
	return string(out)
}

type simhookGInfo = simhook.GInfo

func stripLine(s string) string { return simhook.StripLine(s) }

func simhookGoClient(name string, fn func()) { simhook.GoClient(name, fn) }
