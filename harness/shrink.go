package harness

import (
	"encoding/json"
	"testing"
	"time"
)

const (
	shrinkMaxExec = 400
	shrinkMaxTime = 60 * time.Second
)

// shrinkAndPackage minimises a failing (case, tapes) pair while the same
// violation class persists and returns the replay record.
func shrinkAndPackage(t *testing.T, prop Property, job *Job, run int, c interface{}, tape *Tape, x *Exec, vd *Verdict) *Replay {
	orig := caseJSON(c)
	class := vd.V.Class
	best := cloneCase(prop, c)
	bestTapes := tape.Used()
	bestV := vd.V
	bestSig := x.Sig
	execs := 0
	start := time.Now()
	scratch := NewStats()

	left := func() bool { return execs < shrinkMaxExec && time.Since(start) < shrinkMaxTime }
	try := func(cand interface{}, tapes map[string][]uint32) bool {
		if !left() {
			return false
		}
		execs++
		rt := ReplayTape(tapes)
		x2 := NewExec(t, rt, scratch)
		v2 := prop.Exec(x2, cloneCase(prop, cand))
		if v2.V == nil || v2.V.Class != class {
			return false
		}
		best = cloneCase(prop, cand)
		bestTapes = rt.Used()
		bestV = v2.V
		bestSig = x2.Sig
		return true
	}

	// 0. establish that replay from the recorded tapes reproduces it at all
	if !try(best, bestTapes) {
		// keep the original; the driver's fresh-process replay will decide
		execs = shrinkMaxExec
	}

	// 1. structural shrinking of the case
	for progress := true; progress && left(); {
		progress = false
		for _, cand := range prop.Shrinks(best) {
			if try(cand, bestTapes) {
				progress = true
				break
			}
		}
	}
	// 2. simplify tapes: whole stream to nothing, then halves, then chunks to zero
	streams := []string{"disk", "select", "maporder", "sched"}
	for _, s := range streams {
		rec := bestTapes[s]
		if len(rec) == 0 {
			continue
		}
		tp := copyTapes(bestTapes)
		delete(tp, s)
		if try(best, tp) {
			continue
		}
		// truncate (tail becomes zeros)
		for n := len(rec) / 2; n > 0 && left(); n /= 2 {
			rec = bestTapes[s]
			if len(rec) <= n {
				continue
			}
			tp = copyTapes(bestTapes)
			tp[s] = append([]uint32(nil), rec[:len(rec)-n]...)
			for try(best, tp) {
				rec = bestTapes[s]
				if len(rec) <= n {
					break
				}
				tp = copyTapes(bestTapes)
				tp[s] = append([]uint32(nil), rec[:len(rec)-n]...)
			}
		}
		// zero chunks
		for size := len(bestTapes[s]) / 2; size >= 1 && size >= len(bestTapes[s])/64 && left(); size /= 2 {
			for at := 0; at < len(bestTapes[s]) && left(); at += size {
				rec = bestTapes[s]
				allZero := true
				for i := at; i < at+size && i < len(rec); i++ {
					if rec[i] != 0 {
						allZero = false
					}
				}
				if allZero {
					continue
				}
				tp = copyTapes(bestTapes)
				nr := append([]uint32(nil), rec...)
				for i := at; i < at+size && i < len(nr); i++ {
					nr[i] = 0
				}
				tp[s] = nr
				try(best, tp)
			}
		}
	}
	// 3. structural again with the simpler tapes
	for progress := true; progress && left(); {
		progress = false
		for _, cand := range prop.Shrinks(best) {
			if try(cand, bestTapes) {
				progress = true
				break
			}
		}
	}

	rp := &Replay{
		Property: job.Property, Tier: job.Tier, Seed: job.Seed, Run: run,
		Case: json.RawMessage(caseJSON(best)), Tapes: bestTapes,
		Kind: bestV.Kind, Class: bestV.Class, Msg: bestV.Msg, Sig: bestSig, Shrunk: execs,
		Original: json.RawMessage(orig),
	}
	if bestV.Result != nil {
		rp.Tail = bestV.Result.Tail
		rp.Stuck = bestV.Result.Stuck
	}
	return rp
}

func copyTapes(m map[string][]uint32) map[string][]uint32 {
	out := map[string][]uint32{}
	for k, v := range m {
		out[k] = v
	}
	return out
}
