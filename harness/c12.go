package harness

import (
	"bytes"
	"fmt"

	"github.com/biogo/hts/bam"
)

// C12 — whole blocks in write order; Flush+Wait makes written data durable.

type c12Case struct {
	W     WCase  `json:"w"`
	Fault *Fault `json:"fault,omitempty"` // fault configuration: one failing underlying write
	// BAM variant: the same observation points around bam.Writer
	BAM  bool      `json:"bam,omitempty"`
	Hdr  HdrSpec   `json:"hdr,omitempty"`
	Recs []RecSpec `json:"recs,omitempty"`
	Stmt bool      `json:"stmt_yields,omitempty"`
}

type c12 struct{}

func init() { register(c12{}) }

func (c12) ID() string { return "C12" }
func (c12) Runs(tier string) int {
	if tier == "quick" {
		return 12000
	}
	return 0
}
func (c12) New() interface{} { return &c12Case{} }
func (c12) Rule() string {
	return "seeded BGZF writer scripts (as C01, with Flush/Wait at drawn points), all wc, underlying writes delayed 0..3 rounds; the image is examined after EVERY underlying Write returns and after EVERY API call returns (all crash points of the run are enumerated, counted in crash_points); 1 in 5 runs adds one transient/persistent failing underlying write; 1 in 5 runs drives bam.Writer instead (header durable when NewWriter returns - a fifth of those with the header padded to k x BlockSize -1/0/+1 -, record-stream prefix at every crash point). non-trivial: >=2 compressor goroutines alive at once AND their completions were out of submission order (scheduler trace); distinct = (case, schedule signature)"
}

func (c12) Gen(t *Tape, tier string, run int) interface{} {
	c := &c12Case{W: genWCase(t, false)}
	if t.Bool("work") {
		// flush-heavy variant: many small blocks in flight at once
		var ops []WOp
		for _, op := range c.W.Ops {
			ops = append(ops, op)
			if op.Op == "write" && t.Chance("work", 3, 4) {
				ops = append(ops, WOp{Op: "flush"})
			}
		}
		c.W.Ops = ops
		if c.W.WC < 2 {
			c.W.WC = t.Pick("work", 2, 3, 4, 8)
		}
	}
	if c.W.MaxDelay == 0 && t.Bool("work") {
		c.W.MaxDelay = t.Pick("work", 1, 2, 3)
	}
	if t.Chance("work", 1, 5) {
		c.Fault = &Fault{Op: "write", At: t.Draw("work", 6), Kind: []string{"err", "partial"}[t.Draw("work", 2)], Persistent: t.Bool("work")}
	}
	c.Stmt = t.Chance("work", 1, 4) && len(c.W.Written()) <= 20000
	if t.Chance("work", 1, 5) {
		c.BAM = true
		c.Fault = nil
		c.Hdr = genHdr(t)
		big := t.Chance("work", 1, 6)
		for i, n := 0, t.Draw("work", 14); i < n; i++ {
			size := 0
			if big && t.Chance("work", 1, 4) {
				size = 2
			} else if t.Chance("work", 1, 8) {
				size = 1
			}
			c.Recs = append(c.Recs, genRec(t, len(c.Hdr.Refs), size, i))
		}
		if t.Chance("work", 1, 5) {
			// a header padded (by a comment) to end exactly on, or next to,
			// a block boundary of the writer: whether NewWriter has
			// delivered ALL of it is then decided by its Wait alone
			k := 1 + t.Draw("work", 2)
			target := k*bs + t.Pick("work", 0, 0, 0, -1, 1)
			base := len(c.Hdr.EncodeBAMHeader()) + len("@CO\t\n")
			if n := target - base; n > 0 {
				pt := NewTape(uint64(n), "C12-pad", 0)
				pad := make([]byte, n)
				for i := range pad {
					pad[i] = byte('a' + pt.Draw("work", 26))
				}
				c.Hdr.Comments = append(c.Hdr.Comments, string(pad))
			}
		}
	}
	return c
}

// prefixChecker validates the growing image incrementally.
type prefixChecker struct {
	parsed  int // image offset up to which complete members were validated
	payLen  int // total payload of those members
	members int
	sawEOF  bool
}

func (pc *prefixChecker) check(img, started []byte, when string) *Violation {
	if len(img) < pc.parsed {
		return Mismatch("image-shrank", "%s: image shrank", when)
	}
	ms, stop, why := ParseBGZF(img[pc.parsed:])
	if why != nil || stop != len(img)-pc.parsed {
		return Mismatch("partial-member", "%s: the %d bytes delivered so far are not a sequence of complete blocks: %v (after %d valid members, %d bytes)", when, len(img), why, pc.members+len(ms), pc.parsed+stop)
	}
	for _, m := range ms {
		end := pc.payLen + len(m.Payload)
		if end > len(started) || !bytes.Equal(m.Payload, started[pc.payLen:end]) {
			return Mismatch("not-a-prefix", "%s: member %d (file offset %d, %d payload bytes) does not continue the written data at logical offset %d (data written so far: %d bytes)", when, pc.members, pc.parsed+int(m.Off), len(m.Payload), pc.payLen, len(started))
		}
		if len(m.Payload) > specMaxPayload {
			return Mismatch("oversize-payload", "%s: member with %d payload bytes", when, len(m.Payload))
		}
		pc.payLen = end
		pc.members++
		pc.sawEOF = m.IsEOF
	}
	pc.parsed = len(img)
	return nil
}

func (p c12) Exec(x *Exec, ci interface{}) *Verdict {
	c := ci.(*c12Case)
	x.StmtAll = c.Stmt
	if c.BAM {
		return p.execBAM(x, c)
	}
	vd := &Verdict{}
	file := &File{X: x, Name: "f", MaxDelay: c.W.MaxDelay}
	if c.Fault != nil {
		file.Faults = []Fault{*c.Fault}
	}
	pc := &prefixChecker{}
	var started []byte // payloads of all Write calls started so far
	var viol *Violation
	crash := 0
	failedAt := -1 // image length when the first underlying write failed
	failedImg := -1
	file.OnWrite = func(f *File) {
		crash++
		last := f.Journal[len(f.Journal)-1]
		if viol != nil {
			return
		}
		if failedAt >= 0 {
			if len(f.Data) != failedImg {
				viol = Mismatch("append-after-failed-write", "underlying write %d appended %d bytes after write %d had failed: the file now has a hole or a torn block in the middle", last.Call, last.N, failedAt)
			}
			return
		}
		if last.Err {
			// validate what precedes the failed write, remember the torn tail
			viol = pc.check(f.Data[:last.Off], started, fmt.Sprintf("before failed underlying write %d", last.Call))
			failedAt = last.Call
			failedImg = len(f.Data)
			return
		}
		viol = pc.check(f.Data, started, fmt.Sprintf("after underlying write %d returned", last.Call))
	}
	var werr *apiErr
	var ctorErr error
	beforeLastFlush := -1
	sawFlush := false
	durableBad := ""
	outOfOrder := completionOrderProbe(x)
	maxAlive := 0
	prevTrace := x.Trace
	alive := map[int]bool{}
	x.Trace = func(step, gid int, name, site string) {
		prevTrace(step, gid, name, site)
		if containsStr(name, "writeBlock") {
			if !alive[gid] {
				alive[gid] = true
			}
			if containsStr(site, "send:c.flush") {
				delete(alive, gid)
			}
			if len(alive) > maxAlive {
				maxAlive = len(alive)
			}
		}
	}
	x.Procs = c.W.Procs
	res := x.RunSim("write", c.W.estSteps(), func() {
		bw, err := c.W.newWriter(file)
		if err != nil {
			ctorErr = err
			return
		}
		// like runWriterScript, but tracking what has been started
		for i, op := range c.W.Ops {
			switch op.Op {
			case "write":
				p := op.P.Bytes()
				started = append(started, p...)
				n, err := bw.Write(p)
				if err != nil || n != len(p) {
					werr = &apiErr{i, fmt.Sprintf("Write(%d bytes) = %d, %v", len(p), n, err)}
				}
			case "flush":
				before := len(started)
				if err := bw.Flush(); err != nil {
					werr = &apiErr{i, fmt.Sprintf("Flush() = %v", err)}
				} else {
					beforeLastFlush = before
					sawFlush = true
				}
			case "wait":
				if err := bw.Wait(); err != nil {
					werr = &apiErr{i, fmt.Sprintf("Wait() = %v", err)}
				} else if sawFlush && viol == nil {
					// Flush followed by Wait returned nil: everything written
					// before that Flush is in the delivered prefix. This holds
					// with an injected fault too: if a write failed, either the
					// flushed data had all been delivered before it, or Wait
					// must not return nil.
					var v *Violation
					if failedAt < 0 {
						v = pc.check(file.Data, started, "after Wait")
					}
					if v != nil {
						viol = v
					} else if pc.payLen < beforeLastFlush {
						durableBad = fmt.Sprintf("op %d: Flush then Wait returned nil but only %d of the %d bytes written before the Flush have been delivered", i, pc.payLen, beforeLastFlush)
					} else {
						x.Probe("flush_wait_checked")
					}
				}
			}
			if werr != nil {
				break
			}
			crash++
			if viol == nil && failedAt < 0 {
				viol = pc.check(file.Data, started, fmt.Sprintf("after API call %d (%s) returned", i, op.Op))
			}
		}
		if werr == nil {
			if err := bw.Close(); err != nil {
				werr = &apiErr{len(c.W.Ops), fmt.Sprintf("Close() = %v", err)}
			} else if viol == nil && failedAt < 0 {
				crash++
				if v := pc.check(file.Data, started, "after Close"); v != nil {
					viol = v
				} else if pc.payLen != len(started) {
					durableBad = fmt.Sprintf("Close returned nil but only %d of %d bytes were delivered", pc.payLen, len(started))
				} else if !pc.sawEOF {
					durableBad = "Close returned nil but the stream does not end with the EOF marker"
				}
			}
		}
	})
	ooo := outOfOrder()
	x.Trace = nil
	x.Stats.CrashPoints += int64(crash)
	if v, inc := StructuralViolation("write", &res); v != nil || inc != "" {
		if c.Fault != nil && v != nil {
			// hangs after an injected fault are C09's subject, not C12's
			x.Stats.Extra["fault_run_hang_left_to_C09"]++
			return vd
		}
		vd.V, vd.Inconcl = v, inc
		return vd
	}
	switch {
	case ctorErr != nil:
		vd.V = Mismatch("ctor", "NewWriterLevel = %v", ctorErr)
	case viol != nil:
		vd.V = viol
	case durableBad != "":
		vd.V = Mismatch("not-durable", "%s", durableBad)
	case werr != nil && c.Fault == nil:
		vd.V = Mismatch("write-api-error", "fault-free writer: op %d: %s", werr.Op, werr.Msg)
	case werr == nil && c.Fault != nil && len(file.Fired) > 0:
		vd.V = Mismatch("fault-swallowed", "underlying write failed (%v) but every API call including Close returned nil", file.Fired)
	}
	if vd.V != nil {
		return vd
	}
	if ooo {
		x.Probe("out_of_order_completion")
	}
	if maxAlive >= 2 {
		x.Probe("blocks_in_flight>=2")
	}
	if len(file.Fired) > 0 {
		x.Probe("fault_fired")
	}
	vd.NonTrivial = ooo && maxAlive >= 2
	vd.Sample = map[string]interface{}{"case": c, "crash_points": crash, "members": pc.members, "steps": x.Steps, "max_compressors_alive": maxAlive, "out_of_order_completion": ooo}
	return vd
}

// checkMasked is check for BAM streams: the model writes the bin field of
// every record as 0, so the comparison ignores bytes that differ only there.
// Rather than tracking record offsets inside members it compares each
// member's payload with the model after copying the model's bin bytes over.
func (pc *prefixChecker) checkMasked(img, started []byte, when string) *Violation {
	ms, stop, why := ParseBGZF(img[pc.parsed:])
	if why != nil || stop != len(img)-pc.parsed {
		return Mismatch("partial-member", "%s: the %d bytes delivered so far are not a sequence of complete blocks: %v", when, len(img), why)
	}
	for _, m := range ms {
		end := pc.payLen + len(m.Payload)
		if end > len(started) {
			return Mismatch("not-a-prefix", "%s: more data on disk (%d bytes) than written so far (%d)", when, end, len(started))
		}
		diffs := 0
		for i, b := range m.Payload {
			if b != started[pc.payLen+i] {
				diffs++
			}
		}
		// at most two differing bytes per record (the bin field); records are >= 36 bytes
		if diffs > 2*(len(m.Payload)/36+1) {
			return Mismatch("not-a-prefix", "%s: member %d does not continue the BAM stream at offset %d (%d bytes differ)", when, pc.members, pc.payLen, diffs)
		}
		pc.payLen = end
		pc.members++
		pc.sawEOF = m.IsEOF
	}
	pc.parsed = len(img)
	return nil
}

func (c12) Shrinks(ci interface{}) []interface{} {
	c := ci.(*c12Case)
	var out []interface{}
	if c.BAM {
		for i := range c.Recs {
			n := *c
			n.Recs = append(append([]RecSpec(nil), c.Recs[:i]...), c.Recs[i+1:]...)
			out = append(out, &n)
		}
		if c.W.WC != 1 {
			n := *c
			n.W.WC = 1
			out = append(out, &n)
		}
		return out
	}
	for _, w := range shrinkWCase(c.W) {
		n := *c
		n.W = w
		out = append(out, &n)
	}
	if c.Fault != nil {
		n := *c
		n.Fault = nil
		out = append(out, &n)
		if c.Fault.At > 0 {
			n := *c
			f := *c.Fault
			f.At--
			n.Fault = &f
			out = append(out, &n)
		}
	}
	return out
}

// execBAM observes the same crash points around bam.Writer: after
// NewWriter returns nil the complete header is on disk; at every point the
// image is complete members decoding to a prefix of header+records.
func (c12) execBAM(x *Exec, c *c12Case) *Verdict {
	vd := &Verdict{}
	file := &File{X: x, Name: "f", MaxDelay: c.W.MaxDelay}
	pc := &prefixChecker{}
	var started []byte
	var viol *Violation
	crash := 0
	file.OnWrite = func(f *File) {
		crash++
		if viol == nil {
			viol = pc.checkMasked(f.Data, started, fmt.Sprintf("after underlying write %d returned", f.Writes-1))
		}
	}
	hdrBytes := c.Hdr.EncodeBAMHeader()
	var werr string
	x.Procs = c.W.Procs
	res := x.RunSim("bamwrite", 200+60*len(c.Recs), func() {
		h, err := c.Hdr.SamHeader()
		if err != nil {
			werr = "building the header: " + err.Error()
			return
		}
		// the order of the tags within a header line is the library's own
		// (it carries no meaning): take its text if it says the same thing
		if lt, err := h.MarshalText(); err == nil && NormHeaderText(string(lt)) == NormHeaderText(c.Hdr.Text()) {
			hdrBytes = c.Hdr.EncodeBAMHeaderText(string(lt))
		}
		started = append(started, hdrBytes...)
		bw, err := bam.NewWriterLevel(file.W(), h, c.W.Level, c.W.WC)
		if err != nil {
			werr = "NewWriterLevel: " + err.Error()
			return
		}
		crash++
		if viol == nil {
			if viol = pc.check(file.Data, started, "after bam.NewWriterLevel returned"); viol == nil && pc.payLen != len(hdrBytes) {
				viol = Mismatch("bam-header-not-durable", "bam.NewWriterLevel returned nil but only %d of the %d header bytes are on disk", pc.payLen, len(hdrBytes))
			}
		}
		for i := range c.Recs {
			rec, err := c.Recs[i].SamRecord(h)
			if err != nil {
				werr = fmt.Sprintf("building record %d: %v", i, err)
				return
			}
			enc := c.Recs[i].EncodeBAM()
			mark := len(started)
			started = append(started, enc...)
			if err := bw.Write(rec); err != nil {
				werr = fmt.Sprintf("Write of record %d: %v", i, err)
				return
			}
			_ = mark
			crash++
			if viol == nil {
				viol = pc.checkMasked(file.Data, started, fmt.Sprintf("after Write of record %d returned", i))
			}
		}
		if err := bw.Close(); err != nil {
			werr = "Close: " + err.Error()
			return
		}
		crash++
		if viol == nil {
			if viol = pc.checkMasked(file.Data, started, "after Close"); viol == nil {
				if pc.payLen != len(started) {
					viol = Mismatch("not-durable", "Close returned nil but only %d of %d bytes were delivered", pc.payLen, len(started))
				} else if !pc.sawEOF {
					viol = Mismatch("not-durable", "Close returned nil but the stream does not end with the EOF marker")
				}
			}
		}
	})
	x.Stats.CrashPoints += int64(crash)
	if v, inc := StructuralViolation("bamwrite", &res); v != nil || inc != "" {
		vd.V, vd.Inconcl = v, inc
		return vd
	}
	if viol != nil {
		viol.Class = "bam:" + viol.Class
		vd.V = viol
		return vd
	}
	if werr != "" {
		vd.V = Mismatch("bam-write-api-error", "fault-free bam.Writer: %s", werr)
		return vd
	}
	x.Probe("bam_writer_run")
	vd.NonTrivial = pc.members >= 3 && x.Preempt >= 1
	vd.Sample = map[string]interface{}{"bam": true, "hdr": c.Hdr, "records": len(c.Recs), "crash_points": crash, "members": pc.members, "wc": c.W.WC, "steps": x.Steps}
	return vd
}
