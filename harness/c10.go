package harness

import (
	"bytes"
	"encoding/binary"
	"fmt"
	"io"
	"sync"
	"testing"

	"github.com/biogo/hts/bam"
	"github.com/biogo/hts/bgzf"
)

// C10 — truncated or corrupted streams are never read as different valid data.

type c10Stream struct {
	bam    bool
	img    []byte
	flat   *Flat
	hdr    HdrSpec
	recs   []RecSpec
	recAt  []int // offset of each record in the uncompressed stream (bam), plus the end
	nval   int   // substitution values per position
	count  int   // enumerated faults of this stream
	first  int   // first run index of this stream
	truncs []int // enumerated truncation lengths
	subPos []int // enumerated substitution positions
	hdrPos []int // member-header positions that get all 255 values (quick tier)
	big    bool
	reblk  bool // BAM re-blocked: member boundaries inside the header and inside records
}

type c10Case struct {
	Stream int    `json:"stream"`
	BAM    bool   `json:"bam"`
	Trunc  int    `json:"trunc"` // >=0: truncation length; -1: substitution
	Pos    int    `json:"pos"`
	Val    int    `json:"val"`
	RD     int    `json:"rd"`
	Procs  int    `json:"procs"`
	Chunk  int    `json:"chunk"`
	Delay  int    `json:"delay"`
	Kind   string `json:"reader_kind"`
	EOFD   bool   `json:"eof_with_data,omitempty"` // the final bytes arrive together with io.EOF (Read and ReadAt)
}

type c10 struct {
	mu      sync.Mutex
	seed    uint64
	tier    string
	streams []*c10Stream
}

var theC10 = &c10{}

func init() { register(theC10) }

func (*c10) ID() string       { return "C10" }
func (*c10) New() interface{} { return &c10Case{} }
func (*c10) Rule() string {
	return "streams written by the real bgzf.Writer / bam.Writer from seeded scripts (3-8 members, 0.3-4 KiB; quick: 4 streams, thorough: as many as the budget allows); for each stream EVERY truncation length 0..len-1 and EVERY position x substitution value (quick: 8 single-bit flips, 0x00, 0xff; thorough: all 255 other values) is enumerated (exhaustive axes per stream) and the faulted image is read by bgzf.Reader or bam.Reader with rd in {1,2,4} under a tape-chosen schedule, short reads and delays, and probed with bgzf.HasEOF. non-trivial: the reader consumed the faulted region (for truncations: the cut lies before the end; for substitutions: the altered byte was read from the simulated disk); distinct = (stream, fault, rd, schedule signature)"
}

func (p *c10) Init(t *testing.T, seed uint64, tier string) {
	p.seed, p.tier = seed, tier
}

func (p *c10) Runs(tier string) int {
	if tier == "quick" {
		n := 0
		for i := 0; i < 5; i++ {
			n += p.stream(i).count
		}
		return n
	}
	return 0
}

// stream returns stream i, generating streams up to i on demand.
func (p *c10) stream(i int) *c10Stream {
	p.mu.Lock()
	defer p.mu.Unlock()
	for len(p.streams) <= i {
		j := len(p.streams)
		t := NewTape(p.seed, "C10-stream", j)
		s := &c10Stream{bam: j%2 == 1 || j%8 == 4, nval: 10, big: j%4 == 3, reblk: j%8 == 4}
		if p.tier == "thorough" {
			s.nval = 255
		}
		x := NewExec(nil, t, NewStats())
		file := &File{X: x, Name: "gen"}
		if !s.bam {
			w := WCase{Level: t.Pick("work", -1, 1, 6), WC: 1, Header: HeaderOpts{OS: -1}}
			for k, n := 0, 3+t.Draw("work", 5); k < n; k++ {
				w.Ops = append(w.Ops, WOp{Op: "write", P: Payload{Len: 1 + t.Draw("work", 600), Kind: payloadKinds[1+t.Draw("work", 3)], Seed: uint32(t.Draw("work", 1<<30))}})
				if t.Chance("work", 3, 4) {
					w.Ops = append(w.Ops, WOp{Op: "flush"})
				}
			}
			if j%4 == 2 {
				// two consecutive members whose payloads add up to one byte
				// more than a block can hold (65280 + 257, highly compressible so that
				// both members are small): an altered BSIZE
				// that makes the reader take both as one member must not
				// lose the byte that does not fit
				w.Ops = append([]WOp{{Op: "write", P: Payload{Len: 65537, Kind: "zeros", Seed: uint32(t.Draw("work", 1<<30))}}, {Op: "flush"}}, w.Ops[:2]...)
			}
			bw, err := w.newWriter(file)
			if err != nil {
				panic(err)
			}
			if e := runWriterScript(x, &w, bw, nil); e != nil {
				panic("c10: generating a stream failed: " + e.Msg)
			}
		} else {
			s.hdr = genHdr(t)
			for s.reblk && len(s.hdr.Refs) < 3 {
				s.hdr.Refs = append(s.hdr.Refs, RefSpec{Name: fmt.Sprintf("chrz%d", len(s.hdr.Refs)), Len: 1000 + len(s.hdr.Refs)})
			}
			for k, n := 0, 2+t.Draw("work", 8); k < n; k++ {
				s.recs = append(s.recs, genRec(t, len(s.hdr.Refs), 0, k))
			}
			if s.big {
				// one record larger than a BGZF block between small ones: the
				// only way the writer puts a member end inside a record
				s.recs = append(s.recs[:1], append([]RecSpec{genRec(t, len(s.hdr.Refs), 2, 100)}, s.recs[1:]...)...)
				if len(s.recs) > 4 {
					s.recs = s.recs[:4]
				}
			}
			h, err := s.hdr.SamHeader()
			if err != nil {
				panic(err)
			}
			bw, err := bam.NewWriterLevel(file.W(), h, t.Pick("work", -1, 1), 1)
			if err != nil {
				panic(err)
			}
			off := len(s.hdr.EncodeBAMHeader())
			for k := range s.recs {
				rec, err := s.recs[k].SamRecord(h)
				if err == nil {
					err = bw.Write(rec)
				}
				if err != nil {
					panic(err)
				}
				s.recAt = append(s.recAt, off)
				off += len(s.recs[k].EncodeBAM())
			}
			s.recAt = append(s.recAt, off)
			if err := bw.Close(); err != nil {
				panic(err)
			}
		}
		if s.reblk {
			// The same uncompressed BAM stream with member boundaries where
			// bam.Writer never puts them: between and inside the fields of the
			// binary header (magic, l_text, text, n_ref, each reference record)
			// and inside records. A cut at such a boundary is a clean end of
			// the BGZF layer in the middle of a BAM structure.
			f0, err := NewFlat(file.Data)
			if err != nil {
				panic("c10: generated stream does not parse: " + err.Error())
			}
			data := f0.Data
			ltext := int(binary.LittleEndian.Uint32(data[4:8]))
			cand := []int{4, 8, 8 + ltext/2, 8 + ltext, 12 + ltext}
			o := 12 + ltext
			for range s.hdr.Refs {
				lname := int(binary.LittleEndian.Uint32(data[o : o+4]))
				cand = append(cand, o+4, o+4+lname, o+8+lname)
				o += 8 + lname
			}
			if o != s.recAt[0] {
				panic("c10: binary header layout differs from the model")
			}
			for k := 0; k+1 < len(s.recAt); k++ {
				cand = append(cand, s.recAt[k]+2, s.recAt[k]+4, s.recAt[k]+36, s.recAt[k+1])
			}
			var cuts []int
			last := 0
			for _, q := range cand {
				if q > last && q < len(data) && t.Chance("work", 1, 2) {
					cuts = append(cuts, q)
					last = q
				}
			}
			file = &File{X: x, Name: "gen2"}
			bw, err := bgzf.NewWriterLevel(file.W(), t.Pick("work", -1, 1), 1)
			if err != nil {
				panic(err)
			}
			last = 0
			for _, q := range append(cuts, len(data)) {
				if _, err := bw.Write(data[last:q]); err != nil {
					panic(err)
				}
				if err := bw.Flush(); err != nil {
					panic(err)
				}
				last = q
			}
			if err := bw.Close(); err != nil {
				panic(err)
			}
		}
		s.img = file.Data
		var err error
		s.flat, err = NewFlat(s.img)
		if err != nil {
			panic("c10: generated stream does not parse: " + err.Error())
		}
		if !s.big {
			for i := 0; i < len(s.img); i++ {
				s.truncs = append(s.truncs, i)
				s.subPos = append(s.subPos, i)
			}
		} else {
			// a large stream: every position near a member boundary, the rest sampled
			near := map[int]bool{}
			for _, m := range s.flat.Members {
				for d := -6; d <= 24; d++ {
					if q := int(m.Off) + d; q >= 0 && q < len(s.img) {
						near[q] = true
					}
				}
			}
			for i := 0; i < len(s.img); i++ {
				if near[i] || i%211 == 0 {
					s.truncs = append(s.truncs, i)
				}
				if near[i] || i%1021 == 0 {
					s.subPos = append(s.subPos, i)
				}
			}
		}
		// bytes of member headers get every value also in the quick tier: a
		// single altered length/flag byte is what turns corruption into a
		// "valid" shorter stream
		if s.nval < 255 {
			for _, m := range s.flat.Members {
				for d := 0; d < 18; d++ {
					s.hdrPos = append(s.hdrPos, int(m.Off)+d)
				}
			}
		}
		s.count = len(s.truncs) + len(s.subPos)*s.nval + len(s.hdrPos)*255
		if j > 0 {
			s.first = p.streams[j-1].first + p.streams[j-1].count
		}
		p.streams = append(p.streams, s)
	}
	return p.streams[i]
}

func (p *c10) locate(run int) (int, *c10Stream) {
	for i := 0; ; i++ {
		s := p.stream(i)
		if run < s.first+s.count {
			return i, s
		}
	}
}

var c10Vals = []int{-1, -2, -3, -4, -5, -6, -7, -8, 0x00, 0xff} // negative: flip bit (-v-1)

func (p *c10) Gen(t *Tape, tier string, run int) interface{} {
	i, s := p.locate(run)
	k := run - s.first
	c := &c10Case{Stream: i, BAM: s.bam, Trunc: -1, RD: t.Pick("work", 1, 2, 4), Procs: 2, Chunk: t.Pick("work", 0, 0, 2), Delay: t.Pick("work", 0, 0, 1), Kind: ReaderKinds[t.Draw("work", 2)]}
	c.EOFD = t.Chance("work", 1, 3)
	if k < len(s.truncs) {
		c.Trunc = s.truncs[k]
		return c
	}
	k -= len(s.truncs)
	if k >= len(s.subPos)*s.nval {
		k -= len(s.subPos) * s.nval
		c.Pos = s.hdrPos[k/255]
		c.Val = k % 255
		if c.Val >= int(s.img[c.Pos]) {
			c.Val++
		}
		return c
	}
	c.Pos = s.subPos[k/s.nval]
	v := k % s.nval
	orig := int(s.img[c.Pos])
	if s.nval == 10 {
		if c10Vals[v] < 0 {
			c.Val = orig ^ (1 << uint(-c10Vals[v]-1))
		} else {
			c.Val = c10Vals[v]
			if c.Val == orig {
				c.Val = orig ^ 0x55
			}
		}
	} else {
		c.Val = v
		if v >= orig {
			c.Val = v + 1
		}
	}
	return c
}

func (p *c10) Exec(x *Exec, ci interface{}) *Verdict {
	c := ci.(*c10Case)
	s := p.stream(c.Stream)
	vd := &Verdict{}
	var img []byte
	what := ""
	if c.Trunc >= 0 {
		img = append([]byte(nil), s.img[:c.Trunc]...)
		what = fmt.Sprintf("stream %d truncated to %d of %d bytes", c.Stream, c.Trunc, len(s.img))
		x.Fault("truncation")
	} else {
		img = append([]byte(nil), s.img...)
		img[c.Pos] = byte(c.Val)
		what = fmt.Sprintf("stream %d with byte %d changed from %#02x to %#02x", c.Stream, c.Pos, s.img[c.Pos], c.Val)
		x.Fault("byte-substitution")
	}
	file := &File{X: x, Name: "f", Data: img, Chunk: c.Chunk, MaxDelay: c.Delay, EOFWithData: c.EOFD, Touched: make([]bool, len(img))}
	x.Procs = c.Procs
	var got []byte
	var nrec int
	var endErr error
	var recBad string
	var hasEOF bool
	var hasEOFErr error
	var openFailed bool // bam.NewReader returned no reader: a failure whatever the error value
	res := x.RunSim("read", estReadSteps(len(img), c.Chunk, c.Kind, c.Delay)*2+40*len(s.recs), func() {
		hasEOF, hasEOFErr = bgzf.HasEOF(file.RA())
		if !s.bam {
			r, err := bgzf.NewReader(file.As(c.Kind), c.RD)
			if err != nil {
				endErr = err
				return
			}
			var note string
			got, endErr, _, note = readAll(x, r, []int{97, 1, 4096}, len(s.flat.Data)+100)
			if note != "" {
				recBad = note
			}
			r.Close()
			return
		}
		br, err := bam.NewReader(file.As(c.Kind), c.RD)
		if err != nil {
			endErr = err
			openFailed = true
			return
		}
		h := br.Header()
		for {
			rec, err := br.Read()
			if err != nil {
				endErr = err
				break
			}
			if nrec >= len(s.recs) {
				recBad = fmt.Sprintf("more than the %d original records returned (extra %q)", len(s.recs), rec.Name)
				break
			}
			if ht, _ := h.MarshalText(); nrec == 0 && NormHeaderText(string(ht)) != NormHeaderText(s.hdr.Text()) {
				recBad = "header differs from the original although NewReader succeeded"
				break
			}
			if msg := s.recs[nrec].CheckRecord(rec, h, 0); msg != "" {
				recBad = fmt.Sprintf("record %d differs from the original: %s", nrec, msg)
				break
			}
			nrec++
		}
		br.Close()
	})
	if v, inc := StructuralViolation("read", &res); v != nil || inc != "" {
		vd.V, vd.Inconcl = v, inc
		if v != nil {
			v.Msg = what + ": " + v.Msg
		}
		return vd
	}
	clean := endErr == io.EOF
	orig := s.flat.Data
	if c.Trunc >= 0 {
		// what was returned is a prefix of the original
		if !s.bam && !bytes.HasPrefix(orig, got) {
			vd.V = Mismatch("trunc-not-prefix", "%s: the %d bytes returned are not a prefix of the original data (first difference at %d)", what, len(got), firstDiff(got, orig))
			return vd
		}
		if recBad != "" {
			vd.V = Mismatch("trunc-record", "%s: %s", what, recBad)
			return vd
		}
		if endErr == nil {
			vd.V = Mismatch("trunc-no-end", "%s: reading did not end", what)
			return vd
		}
		if clean {
			// only at a member boundary (BAM: and a record boundary)
			k := s.flat.MemberAt(int64(c.Trunc))
			if k < 0 {
				vd.V = Mismatch("trunc-clean-eof", "%s: clean io.EOF although the cut is inside a block (after %d bytes / %d records)", what, len(got), nrec)
				return vd
			}
			if !s.bam && int64(len(got)) != s.flat.Start[k] {
				vd.V = Mismatch("trunc-clean-eof-data", "%s: clean io.EOF after %d bytes, the complete blocks before the cut hold %d", what, len(got), s.flat.Start[k])
				return vd
			}
			if s.bam {
				// the empty prefix (nothing at all to read) ends cleanly too
				onRec := s.flat.Start[k] == 0
				for _, o := range s.recAt {
					if int64(o) == s.flat.Start[k] {
						onRec = true
					}
				}
				if openFailed && !onRec {
					// a member boundary inside the BAM header: NewReader gave no
					// reader, which is the error the property asks for even when
					// its value is io.EOF
					onRec = true
					x.Probe("newreader_failed_at_member_boundary_inside_header")
				}
				if !onRec {
					vd.V = Mismatch("trunc-clean-eof-midrecord", "%s: clean io.EOF after %d records although the cut (uncompressed offset %d) is inside a record", what, nrec, s.flat.Start[k])
					return vd
				}
			}
			x.Probe("clean_eof_at_member_boundary")
		}
		if hasEOFErr == nil && hasEOF {
			vd.V = Mismatch("trunc-haseof", "%s: HasEOF reports true for a proper prefix", what)
			return vd
		}
		vd.NonTrivial = true
	} else {
		if recBad != "" {
			vd.V = Mismatch("subst-different-data", "%s: %s", what, recBad)
			return vd
		}
		if clean {
			if !s.bam && !bytes.Equal(got, orig) {
				vd.V = Mismatch("subst-different-data", "%s: reading succeeded with %d bytes that differ from the %d original bytes (first difference at %d)", what, len(got), len(orig), firstDiff(got, orig))
				return vd
			}
			if s.bam && nrec != len(s.recs) {
				vd.V = Mismatch("subst-different-data", "%s: reading ended cleanly after %d of %d records", what, nrec, len(s.recs))
				return vd
			}
			x.Probe("substitution_harmless")
		} else {
			x.Probe("substitution_detected")
		}
		vd.NonTrivial = file.Touched[c.Pos]
	}
	vd.Sample = map[string]interface{}{"case": c, "what": what, "stream_bytes": len(s.img), "members": len(s.flat.Members), "end": fmt.Sprint(endErr), "returned_bytes": len(got), "returned_records": nrec}
	return vd
}

func (p *c10) Shrinks(ci interface{}) []interface{} {
	c := ci.(*c10Case)
	var out []interface{}
	if c.RD != 1 {
		n := *c
		n.RD = 1
		out = append(out, &n)
	}
	if c.Chunk != 0 || c.Delay != 0 || c.Kind != "read+seek" || c.EOFD {
		n := *c
		n.Chunk, n.Delay, n.Kind, n.EOFD = 0, 0, "read+seek", false
		out = append(out, &n)
	}
	return out
}
