package harness

import (
	"bytes"
	"compress/flate"
	"encoding/binary"
	"fmt"
	"hash/crc32"
	"io"
)

// Independent BGZF codec written from RFC 1952 and the SAM specification
// (section 4.1). It shares no code and no constants with package bgzf.

// SpecEOF is the 28-byte BGZF end-of-file marker as printed in the SAM
// specification.
var SpecEOF = []byte{
	0x1f, 0x8b, 0x08, 0x04, 0x00, 0x00, 0x00, 0x00, 0x00, 0xff, 0x06, 0x00, 0x42, 0x43,
	0x02, 0x00, 0x1b, 0x00, 0x03, 0x00, 0x00, 0x00, 0x00, 0x00, 0x00, 0x00, 0x00, 0x00,
}

const (
	specMaxMember  = 65536 // BSIZE is a uint16 holding size-1
	specMaxPayload = 65280 // quoted from the property statement / htslib convention
)

// Subfield is a gzip extra subfield.
type Subfield struct {
	SI1, SI2 byte
	Data     []byte
}

// MemberOpts controls the independent encoder.
type MemberOpts struct {
	Level   int        // flate level; -2..9
	Stored  bool       // force stored (uncompressed) deflate blocks
	Before  []Subfield // extra subfields before BC
	After   []Subfield // extra subfields after BC
	Name    string
	Comment string
	MTime   uint32
	OS      byte
	XFL     byte
}

// EncodeMember returns one BGZF member holding payload.
func EncodeMember(payload []byte, o MemberOpts) []byte {
	var def bytes.Buffer
	lvl := o.Level
	if o.Stored {
		lvl = flate.NoCompression
	}
	fw, err := flate.NewWriter(&def, lvl)
	if err != nil {
		panic(err)
	}
	fw.Write(payload)
	fw.Close()

	var extra bytes.Buffer
	put := func(s Subfield) {
		extra.WriteByte(s.SI1)
		extra.WriteByte(s.SI2)
		binary.Write(&extra, binary.LittleEndian, uint16(len(s.Data)))
		extra.Write(s.Data)
	}
	for _, s := range o.Before {
		put(s)
	}
	bcAt := extra.Len() + 4
	put(Subfield{'B', 'C', []byte{0, 0}})
	for _, s := range o.After {
		put(s)
	}
	flg := byte(0x04)
	if o.Name != "" {
		flg |= 0x08
	}
	if o.Comment != "" {
		flg |= 0x10
	}
	var m bytes.Buffer
	m.Write([]byte{0x1f, 0x8b, 0x08, flg})
	binary.Write(&m, binary.LittleEndian, o.MTime)
	m.WriteByte(o.XFL)
	m.WriteByte(o.OS)
	binary.Write(&m, binary.LittleEndian, uint16(extra.Len()))
	bcAbs := m.Len() + bcAt
	m.Write(extra.Bytes())
	if o.Name != "" {
		m.WriteString(o.Name)
		m.WriteByte(0)
	}
	if o.Comment != "" {
		m.WriteString(o.Comment)
		m.WriteByte(0)
	}
	m.Write(def.Bytes())
	binary.Write(&m, binary.LittleEndian, crc32.ChecksumIEEE(payload))
	binary.Write(&m, binary.LittleEndian, uint32(len(payload)))
	b := m.Bytes()
	if len(b) > specMaxMember {
		panic(fmt.Sprintf("bgzfmodel: member of %d bytes does not fit", len(b)))
	}
	binary.LittleEndian.PutUint16(b[bcAbs:], uint16(len(b)-1))
	return b
}

// Member is one parsed BGZF member.
type Member struct {
	Off     int64
	Len     int
	Payload []byte
	Flg     byte
	MTime   uint32
	XFL, OS byte
	Extra   []Subfield
	Name    string
	Comment string
	IsEOF   bool // byte-identical to the specification's marker
}

// ParseBGZF walks b member by member, validating the framing field by
// field. It returns the complete valid members, the offset at which parsing
// stopped and, if that is not len(b), why.
func ParseBGZF(b []byte) (ms []Member, stop int, why error) {
	off := 0
	for off < len(b) {
		m, err := parseMember(b[off:])
		if err != nil {
			return ms, off, fmt.Errorf("member at %d: %v", off, err)
		}
		m.Off = int64(off)
		ms = append(ms, *m)
		off += m.Len
	}
	return ms, off, nil
}

func parseMember(b []byte) (*Member, error) {
	if len(b) < 18 {
		return nil, fmt.Errorf("short header (%d bytes)", len(b))
	}
	if b[0] != 0x1f || b[1] != 0x8b {
		return nil, fmt.Errorf("bad gzip magic % x", b[:2])
	}
	if b[2] != 8 {
		return nil, fmt.Errorf("compression method %d", b[2])
	}
	m := &Member{Flg: b[3], MTime: binary.LittleEndian.Uint32(b[4:8]), XFL: b[8], OS: b[9]}
	if m.Flg&0x04 == 0 {
		return nil, fmt.Errorf("FEXTRA not set")
	}
	if m.Flg&0xe0 != 0 {
		return nil, fmt.Errorf("reserved flag bits set: %#x", m.Flg)
	}
	xlen := int(binary.LittleEndian.Uint16(b[10:12]))
	p := 12
	if len(b) < p+xlen {
		return nil, fmt.Errorf("extra field truncated")
	}
	ex := b[p : p+xlen]
	p += xlen
	bsize := -1
	for len(ex) > 0 {
		if len(ex) < 4 {
			return nil, fmt.Errorf("malformed extra subfield")
		}
		sl := int(binary.LittleEndian.Uint16(ex[2:4]))
		if len(ex) < 4+sl {
			return nil, fmt.Errorf("extra subfield overruns XLEN")
		}
		sf := Subfield{ex[0], ex[1], ex[4 : 4+sl]}
		m.Extra = append(m.Extra, sf)
		if sf.SI1 == 'B' && sf.SI2 == 'C' {
			if sl != 2 {
				return nil, fmt.Errorf("BC subfield of length %d", sl)
			}
			if bsize >= 0 {
				return nil, fmt.Errorf("more than one BC subfield")
			}
			bsize = int(binary.LittleEndian.Uint16(sf.Data))
		}
		ex = ex[4+sl:]
	}
	if bsize < 0 {
		return nil, fmt.Errorf("no BC subfield")
	}
	m.Len = bsize + 1
	if m.Len > specMaxMember {
		return nil, fmt.Errorf("member longer than 64 KiB")
	}
	if len(b) < m.Len {
		return nil, fmt.Errorf("member truncated: BSIZE says %d bytes, %d available", m.Len, len(b))
	}
	if m.Len < p+8 {
		return nil, fmt.Errorf("BSIZE says the member is %d bytes long, shorter than its own header (%d bytes) plus trailer", m.Len, p)
	}
	mb := b[:m.Len]
	readZ := func() (string, error) {
		i := bytes.IndexByte(mb[p:], 0)
		if i < 0 {
			return "", fmt.Errorf("unterminated string field")
		}
		s := string(mb[p : p+i])
		p += i + 1
		return s, nil
	}
	var err error
	if m.Flg&0x08 != 0 {
		if m.Name, err = readZ(); err != nil {
			return nil, err
		}
	}
	if m.Flg&0x10 != 0 {
		if m.Comment, err = readZ(); err != nil {
			return nil, err
		}
	}
	if m.Flg&0x02 != 0 {
		p += 2
	}
	if p+8 > m.Len {
		return nil, fmt.Errorf("no room for deflate data and trailer")
	}
	def := mb[p : m.Len-8]
	br := bytes.NewReader(def)
	fr := flate.NewReader(br)
	payload, err := io.ReadAll(io.LimitReader(fr, specMaxMember+1))
	if err != nil {
		return nil, fmt.Errorf("inflate: %v", err)
	}
	if br.Len() != 0 {
		return nil, fmt.Errorf("deflate stream ends %d bytes before the trailer", br.Len())
	}
	crc := binary.LittleEndian.Uint32(mb[m.Len-8:])
	isz := binary.LittleEndian.Uint32(mb[m.Len-4:])
	if crc != crc32.ChecksumIEEE(payload) {
		return nil, fmt.Errorf("CRC-32 mismatch")
	}
	if isz != uint32(len(payload)) {
		return nil, fmt.Errorf("ISIZE %d, payload %d", isz, len(payload))
	}
	m.Payload = payload
	m.IsEOF = bytes.Equal(mb, SpecEOF)
	return m, nil
}

// Flat is the flat-stream model of a BGZF file: the uncompressed bytes as
// one array plus the member table.
type Flat struct {
	Data    []byte
	Members []Member
	Start   []int64 // Start[i] = logical position of the first byte of member i
	FileLen int64
}

// NewFlat builds the model from an image that must parse completely.
func NewFlat(img []byte) (*Flat, error) {
	ms, stop, why := ParseBGZF(img)
	if why != nil || stop != len(img) {
		return nil, fmt.Errorf("image does not parse: %v", why)
	}
	f := &Flat{Members: ms, FileLen: int64(len(img))}
	for _, m := range ms {
		f.Start = append(f.Start, int64(len(f.Data)))
		f.Data = append(f.Data, m.Payload...)
	}
	return f, nil
}

// MemberAt returns the index of the member starting at file offset off, or -1.
func (f *Flat) MemberAt(off int64) int {
	for i, m := range f.Members {
		if m.Off == off {
			return i
		}
	}
	return -1
}

// Translate maps a virtual offset to a logical position. The file length
// is accepted as the start of a zero-length member.
func (f *Flat) Translate(file int64, block uint16) (int64, bool) {
	if file == f.FileLen && block == 0 {
		return int64(len(f.Data)), true
	}
	i := f.MemberAt(file)
	if i < 0 || int(block) > len(f.Members[i].Payload) {
		return 0, false
	}
	return f.Start[i] + int64(block), true
}
