package harness

import (
	"fmt"

	"github.com/biogo/hts/bgzf"
)

// C02 — virtual offsets obey the flat model (no cache).
// C03 — caches are transparent.

type c02Case struct {
	File   FileSpec `json:"file"`
	Hist   []ROp    `json:"hist"`
	RD     int      `json:"rd"`
	Procs  int      `json:"procs"`
	Kind   string   `json:"reader_kind"`
	Chunk  int      `json:"chunk"`
	EOFD   bool     `json:"eof_with_data"`
	Delay  int      `json:"delay"`
	Stmt   bool     `json:"stmt_yields,omitempty"`
	ZeroRd bool     `json:"zero_reads,omitempty"`
}

type c02 struct{ cached bool }

func init() { register(c02{false}); register(c02{true}) }

func (p c02) ID() string {
	if p.cached {
		return "C03"
	}
	return "C02"
}
func (p c02) Runs(tier string) int {
	if tier == "quick" {
		if p.cached {
			return 4000
		}
		return 16000
	}
	return 0
}
func (c02) New() interface{} { return &c02Case{} }
func (p c02) Rule() string {
	base := "BGZF files built by an independent encoder (1..12 members of 1..BS bytes, empty members interspersed, extra subfields before/after BC, with/without EOF marker); seeded histories (<=30 ops) over {Seek(member, off<=len), Read(n), ReadByte, Blocked on/off, reread after Seek(LastChunk.Begin), BlockLen}; rd in {0,1,2,3,4} (0 resolves through simulated GOMAXPROCS), Read+Seek reader kinds, short reads, reads of (0, nil), final bytes with io.EOF, disk delays; every result checked against the flat-stream model with a logical position, LastChunk through translated positions. "
	if p.cached {
		return base + "C03: plus SetCache(LRU|FIFO|Random x plain|StatsRecorder, cap 1..5, or nil) at drawn points, seeks biased to recently left members; the same history is executed by an uncached reader in the same run and every (bytes, error, raw LastChunk) triple must be identical; statement-level yields inside bgzf/cache. non-trivial: >=1 seek to a previously visited member after a cache was set AND rd>1 AND >=1 preemptive switch; distinct = (case, schedule signature)"
	}
	return base + "non-trivial: >=1 Seek, >=1 read crossing a member end, rd>1 and >=1 preemptive switch; distinct = (case, schedule signature)"
}

func (p c02) Gen(t *Tape, tier string, run int) interface{} {
	c := &c02Case{File: genFileSpec(t, true)}
	sizes := make([]int, len(c.File.Members))
	total := 0
	for i, m := range c.File.Members {
		sizes[i] = m.Len
		total += m.Len
	}
	maxOps := 30
	if tier == "thorough" && t.Chance("work", 1, 4) {
		maxOps = 80 // deeper histories in the thorough tier
	}
	c.Hist = genHistory(t, sizes, p.cached, maxOps)
	c.RD = t.Pick("work", 0, 1, 2, 2, 3, 4)
	c.Procs = t.Pick("work", 1, 2, 3, 4)
	c.Kind = []string{"read+seek", "read+seek+byte"}[t.Draw("work", 2)]
	c.Chunk = t.Pick("work", 0, 0, 2, 1)
	if total > 16384 {
		c.Kind = "read+seek"
		c.Chunk = t.Pick("work", 0, 2)
	}
	c.EOFD = t.Bool("work")
	c.Delay = t.Pick("work", 0, 0, 1, 2)
	c.Stmt = t.Chance("work", 1, 4) && total <= 8192
	if p.cached {
		// cached runs execute the history twice and already yield at every
		// statement of bgzf/cache: keep the bgzf-wide yields for small inputs
		c.Stmt = c.Stmt && total <= 2500 && t.Chance("work", 1, 2)
	}
	if c.Stmt {
		c.Kind = "read+seek"
		c.Chunk = t.Pick("work", 0, 2)
	}
	if p.cached && total > 2048 {
		// statement-level yields make cached runs expensive: no
		// byte-granular disk access on larger files
		c.Kind = "read+seek"
		c.Chunk = t.Pick("work", 0, 2)
	}
	c.ZeroRd = t.Chance("work", 1, 5)
	return c
}

func (p c02) Exec(x *Exec, ci interface{}) *Verdict {
	c := ci.(*c02Case)
	vd := &Verdict{}
	img := c.File.Build()
	flat, err := NewFlat(img)
	if err != nil {
		panic("c02: generated file does not parse: " + err.Error())
	}
	x.Procs = c.Procs
	x.StmtYields = p.cached
	x.StmtAll = c.Stmt
	exec := func(phase string, caches bool) (*histRunner, *Violation, string) {
		file := &File{X: x, Name: "f", Data: img, Chunk: c.Chunk, EOFWithData: c.EOFD, MaxDelay: c.Delay, ZeroReads: c.ZeroRd}
		var hr *histRunner
		var bad *Violation
		est := estReadSteps(len(img), c.Chunk, c.Kind, c.Delay)*(2+len(c.Hist)/4)*3/2 + 200*len(c.Hist)
		res := x.RunSim(phase, est, func() {
			r, err := bgzf.NewReader(file.As(c.Kind), c.RD)
			if err != nil {
				bad = Mismatch("open", "NewReader on a valid file = %v", err)
				return
			}
			hr = &histRunner{x: x, flat: flat, r: r}
			bad = hr.run(c.Hist, caches)
			if bad == nil {
				if err := r.Close(); err != nil && errClass(err) != "EOF" {
					bad = Mismatch("close", "Close after a fault-free history = %v", err)
				}
			}
		})
		if v, inc := StructuralViolation(phase, &res); v != nil || inc != "" {
			return hr, v, inc
		}
		return hr, bad, ""
	}
	plain, v, inc := exec("uncached", false)
	if v != nil || inc != "" {
		if p.cached && v != nil {
			// the uncached execution is C02's subject
			x.Stats.Extra["uncached_failure_left_to_C02"]++
			return vd
		}
		vd.V, vd.Inconcl = v, inc
		return vd
	}
	preemptPlain := x.Preempt
	if p.cached {
		cached, v, inc := exec("cached", true)
		if v != nil || inc != "" {
			if v != nil {
				v.Class = "cached{" + cacheKindsOf(c.Hist) + "}:" + v.Class
				v.Msg = "with caches: " + v.Msg
			}
			vd.V, vd.Inconcl = v, inc
			return vd
		}
		for i := range plain.res {
			a, b := plain.res[i], cached.res[i]
			if c.Hist[i].Op == "blocklen" {
				continue
			}
			if a.N != b.N || a.Hash != b.Hash || a.Err != b.Err || a.Skip != b.Skip {
				vd.V = Mismatch("cached{"+cacheKindsOf(c.Hist)+"}:cache-changes-result", "op %d %+v: uncached reader returned (n=%d, err=%q), cached reader returned (n=%d, err=%q)", i, c.Hist[i], a.N, a.Err, b.N, b.Err)
				return vd
			}
			if a.Chunk != b.Chunk && (c.Hist[i].Op == "read" || c.Hist[i].Op == "byte" || c.Hist[i].Op == "reread" || c.Hist[i].Op == "seek") && (a.N > 0 || c.Hist[i].Op == "seek") {
				vd.V = Mismatch("cached{"+cacheKindsOf(c.Hist)+"}:cache-changes-lastchunk", "op %d %+v: LastChunk is %v without a cache and %v with one", i, c.Hist[i], a.Chunk, b.Chunk)
				return vd
			}
		}
	}
	// non-triviality
	revisit := false
	cacheSet := false
	seen := map[int]bool{}
	for _, op := range c.Hist {
		if op.Op == "setcache" && op.Cache != "" {
			cacheSet = true
		}
		if op.Op == "seek" {
			if seen[op.Block] && cacheSet {
				revisit = true
			}
			seen[op.Block] = true
		}
	}
	rd := c.RD
	if rd == 0 {
		rd = c.Procs
	}
	if p.cached {
		vd.NonTrivial = revisit && rd > 1 && x.Preempt > preemptPlain
		if revisit {
			x.Probe("revisit_with_cache")
		}
	} else {
		vd.NonTrivial = plain.seeks >= 1 && plain.crossed && rd > 1 && x.Preempt >= 1
	}
	if plain.crossed {
		x.Probe("read_crossed_member_end")
	}
	vd.Sample = map[string]interface{}{"case": c, "members": len(flat.Members), "bytes": len(flat.Data), "steps": x.Steps, "preemptions": x.Preempt, "results": fmt.Sprintf("%d ops", len(plain.res))}
	return vd
}

func (p c02) Shrinks(ci interface{}) []interface{} {
	c := ci.(*c02Case)
	var out []interface{}
	for _, h := range shrinkHist(c.Hist) {
		n := *c
		n.Hist = h
		out = append(out, &n)
	}
	fo, ho := shrinkFileSpec(c.File, c.Hist)
	for i := range fo {
		n := *c
		n.File, n.Hist = fo[i], ho[i]
		out = append(out, &n)
	}
	if c.RD == 0 || c.RD > 2 {
		n := *c
		n.RD = 2
		out = append(out, &n)
	}
	if c.RD != 1 {
		n := *c
		n.RD = 1
		out = append(out, &n)
	}
	if c.Chunk != 0 || c.EOFD || c.Delay != 0 || c.Kind != "read+seek" || c.ZeroRd {
		n := *c
		n.Chunk, n.EOFD, n.Delay, n.Kind, n.ZeroRd = 0, false, 0, "read+seek", false
		out = append(out, &n)
	}
	if c.File.EOF {
		n := *c
		n.File.EOF = false
		out = append(out, &n)
	}
	return out
}

// cacheKindsOf lists the cache implementations a history attaches.
func cacheKindsOf(h []ROp) string {
	seen := map[string]bool{}
	for _, op := range h {
		if op.Op == "setcache" && op.Cache != "" {
			k := op.Cache
			if len(k) > 6 && k[len(k)-6:] == "+stats" {
				k = k[:len(k)-6]
			}
			seen[k] = true
		}
	}
	out := ""
	for _, k := range []string{"fifo", "lru", "random"} {
		if seen[k] {
			if out != "" {
				out += ","
			}
			out += k
		}
	}
	return out
}
