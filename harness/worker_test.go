package harness

import (
	"encoding/binary"
	"encoding/json"
	"fmt"
	"os"
	"runtime"
	"sync/atomic"
	"testing"
	"time"
)

// Job is what the driver hands to a worker process (env HTSV_JOB = path).
type Job struct {
	Property string         `json:"property"`
	Tier     string         `json:"tier"`
	Seed     uint64         `json:"seed"`
	Worker   int            `json:"worker"`
	Workers  int            `json:"workers"`
	From     int            `json:"from"`     // first run index handled (then += Workers)
	MaxRuns  int            `json:"max_runs"` // total runs over all workers (0: budget only)
	BudgetS  float64        `json:"budget_s"`
	Out      string         `json:"out"`
	KeysOut  string         `json:"keys_out"`
	Known    []KnownFinding `json:"known"`
	Replay   string         `json:"replay"`     // replay file to execute instead
	ReplayTo string         `json:"replay_out"` // where a shrunk replay is written
	Recheck  int            `json:"recheck_every"`
	MaxLeaks int            `json:"max_leaks"`
	SigsOut  string         `json:"sigs_out"`           // determinism self-test: write one "run signature steps" line per run
	DumpRun  *int           `json:"dump_run,omitempty"` // only generate the case of this run and report it as the single sample
}

// WorkerResult is what a worker reports.
type WorkerResult struct {
	Stats     *Stats        `json:"stats"`
	Violation *Replay       `json:"violation,omitempty"`
	Collected []*Replay     `json:"collected,omitempty"`
	NextRun   int           `json:"next_run"` // first run index not executed (for respawn after leaks)
	Done      bool          `json:"done"`
	Samples   []interface{} `json:"samples"`
	WallS     float64       `json:"wall_s"`
	Error     string        `json:"error,omitempty"`
	ReplayOK  bool          `json:"replay_ok"`
	ReplaySig uint64        `json:"replay_sig"`
	ReplayMsg string        `json:"replay_msg"`
}

// runStarted is the UnixNano at which the current run started (0: none); the
// stall watchdog of crash-prone properties reads it.
var runStarted atomic.Int64

// currentRun is the run index being executed; on a stall the watchdog writes
// it to the in-flight note (crash-prone properties write the note before
// every run, because a fatal runtime error leaves no chance to).
var currentRun atomic.Int64
var inflightPath atomic.Value

func startStallWatchdog(limit time.Duration) {
	go func() {
		for {
			time.Sleep(time.Second)
			if s := runStarted.Load(); s != 0 && time.Now().UnixNano()-s > int64(limit) {
				if p, ok := inflightPath.Load().(string); ok && p != "" {
					os.WriteFile(p, []byte(fmt.Sprint(currentRun.Load())), 0o644)
				}
				fmt.Fprintf(os.Stderr, "fatal error: hang: run did not finish within %v\n", limit)
				os.Exit(3)
			}
		}
	}()
}

func TestWorker(t *testing.T) {
	path := os.Getenv("HTSV_JOB")
	if path == "" {
		t.Skip("HTSV_JOB not set")
	}
	b, err := os.ReadFile(path)
	if err != nil {
		t.Fatal(err)
	}
	var job Job
	if err := json.Unmarshal(b, &job); err != nil {
		t.Fatal(err)
	}
	res := &WorkerResult{Stats: NewStats()}
	defer func() {
		if r := recover(); r != nil {
			res.Error = fmt.Sprint(r)
			writeJSON(job.Out, res)
			panic(r)
		}
		writeJSON(job.Out, res)
	}()
	prop, err := Lookup(job.Property)
	if err != nil {
		panic(err)
	}
	if in, ok := prop.(interface {
		Init(*testing.T, uint64, string)
	}); ok {
		in.Init(t, job.Seed, job.Tier)
	}
	start := time.Now()
	if job.DumpRun != nil {
		tape := NewTape(job.Seed, job.Property, *job.DumpRun)
		res.Samples = []interface{}{prop.Gen(tape, job.Tier, *job.DumpRun)}
		res.Done = true
		return
	}
	if job.Replay != "" {
		if cp, ok := prop.(interface{ CrashProne() bool }); ok && cp.CrashProne() {
			startStallWatchdog(hangLimit)
		} else {
			startStallWatchdog(hangLimitOther)
		}
		runStarted.Store(time.Now().UnixNano())
		runReplay(t, prop, &job, res)
		runStarted.Store(0)
		res.WallS = time.Since(start).Seconds()
		return
	}
	inflightPath.Store(job.Out + ".inflight")
	os.Remove(job.Out + ".inflight")
	keys := map[uint64]struct{}{}
	skeys := map[uint64]struct{}{} // distinct schedule signatures (all runs)
	var pending, spending []byte
	flushKeys := func() {
		for _, f := range []struct {
			path string
			buf  *[]byte
		}{{job.KeysOut, &pending}, {job.KeysOut + ".sched", &spending}} {
			if job.KeysOut == "" || len(*f.buf) == 0 {
				continue
			}
			fh, err := os.OpenFile(f.path, os.O_APPEND|os.O_CREATE|os.O_WRONLY, 0o644)
			if err != nil {
				panic(err)
			}
			fh.Write(*f.buf)
			fh.Close()
			*f.buf = (*f.buf)[:0]
		}
	}
	collected := map[string]bool{}
	crashProne := false
	if cp, ok := prop.(interface{ CrashProne() bool }); ok {
		crashProne = cp.CrashProne()
	}
	// Code spinning without a scheduling point cannot be preempted by the
	// simulator; only here does real time take part in a verdict, with a
	// limit far above any legitimate run, and only if a fresh-process replay
	// of the same run stalls again.
	if crashProne {
		startStallWatchdog(hangLimit)
	} else {
		startStallWatchdog(hangLimitOther)
	}
	if job.MaxRuns == 0 {
		job.MaxRuns = prop.Runs(job.Tier)
	}
	if job.MaxRuns == 0 && job.BudgetS <= 0 {
		panic("worker: neither a run count nor a time budget")
	}
	if job.Recheck == 0 {
		job.Recheck = 100
	}
	if job.MaxLeaks == 0 {
		job.MaxLeaks = 150
	}
	var sigs *os.File
	if job.SigsOut != "" {
		var err error
		if sigs, err = os.Create(job.SigsOut); err != nil {
			panic(err)
		}
		defer sigs.Close()
	}
	run := job.From
	for ; ; run += job.Workers {
		if job.MaxRuns > 0 && run >= job.MaxRuns {
			res.Done = true
			break
		}
		if job.BudgetS > 0 && time.Since(start).Seconds() > job.BudgetS {
			res.Done = true
			break
		}
		if res.Stats.LeakedSims >= job.MaxLeaks {
			break // respawn to shed stranded goroutines
		}
		if res.Stats.Runs%64 == 63 {
			// stranded goroutines of deadlocked simulations pin their blocks:
			// respawn before the process grows large
			var ms runtime.MemStats
			runtime.ReadMemStats(&ms)
			if ms.HeapInuse > 600<<20 {
				break
			}
		}
		tape := NewTape(job.Seed, job.Property, run)
		c := prop.Gen(tape, job.Tier, run)
		x := NewExec(t, tape, res.Stats)
		// a fatal runtime error or a stall cannot be recovered: note which run
		// is executing
		currentRun.Store(int64(run))
		if crashProne {
			os.WriteFile(job.Out+".inflight", []byte(fmt.Sprint(run)), 0o644)
			// ... and checkpoint the statistics so that the runs before a
			// crash are still accounted for
			res.NextRun = run
			writeJSON(job.Out+".ckpt", res)
			flushKeys()
		}
		t0 := time.Now()
		runStarted.Store(t0.UnixNano())
		vd := prop.Exec(x, c)
		runStarted.Store(0)
		if d := time.Since(t0); d > 300*time.Millisecond && os.Getenv("HTSV_SLOW") != "" {
			fmt.Fprintf(os.Stderr, "slow run %d: %v steps=%d %s\n", run, d, x.Steps, caseJSON(c))
		}
		res.Stats.Runs++
		if sigs != nil {
			fmt.Fprintf(sigs, "%d %016x %016x %d\n", run, x.Sig, x.SchedSig, x.Steps)
		}
		if vd.Inconcl != "" {
			res.Stats.Inconclusive[vd.Inconcl]++
		}
		if vd.V != nil {
			if k := matchKnown(job.Known, job.Property, vd.V); k != nil {
				res.Stats.KnownHits[k.ID]++
				continue
			}
			if os.Getenv("HTSV_COLLECT") != "" {
				// triage mode: keep going, one replay per violation class
				if !collected[vd.V.Class] {
					collected[vd.V.Class] = true
					res.Collected = append(res.Collected, shrinkAndPackage(t, prop, &job, run, c, tape, x, vd))
				}
				continue
			}
			rp := shrinkAndPackage(t, prop, &job, run, c, tape, x, vd)
			res.Violation = rp
			run += job.Workers
			break
		}
		if vd.NonTrivial {
			res.Stats.NonTrivial++
			if len(keys) < maxKeysPerWorker {
				k := mix(mix(hashBytes(caseJSON(c)), x.SchedSig), 0)
				if _, dup := keys[k]; !dup {
					keys[k] = struct{}{}
					pending = binary.LittleEndian.AppendUint64(pending, k)
				}
			} else {
				res.Stats.Extra["distinct_keys_capped_lower_bound"] = 1
			}
		}
		if len(skeys) < maxKeysPerWorker {
			if _, dup := skeys[x.SchedSig]; !dup {
				skeys[x.SchedSig] = struct{}{}
				spending = binary.LittleEndian.AppendUint64(spending, x.SchedSig)
			}
		}
		if len(pending)+len(spending) > 8*512 {
			flushKeys()
		}
		if len(res.Samples) < 3 && vd.Sample != nil && (vd.NonTrivial || run > 40*job.Workers) {
			res.Samples = append(res.Samples, vd.Sample)
		}
		// determinism recheck: re-execute from the recorded tapes
		if job.Recheck > 0 && (run/job.Workers)%job.Recheck == 0 && !x.Leaked {
			rt := ReplayTape(tape.Used())
			x2 := NewExec(t, rt, NewStats())
			prop.Exec(x2, cloneCase(prop, c))
			res.Stats.Rechecks++
			if x2.Sig != x.Sig || x2.Steps != x.Steps {
				res.Stats.RecheckBad++
				panic(fmt.Sprintf("nondeterministic simulator: property %s seed %d run %d: signature %x/%d steps vs %x/%d steps on re-execution",
					job.Property, job.Seed, run, x.Sig, x.Steps, x2.Sig, x2.Steps))
			}
		}
	}
	res.NextRun = run
	res.WallS = time.Since(start).Seconds()
	flushKeys()
}

// maxKeysPerWorker bounds the memory of the distinctness measure; beyond it
// distinct_nontrivial is a lower bound (flagged in evidence).
const maxKeysPerWorker = 400000

// hangLimit is the real-time limit of one run of a crash-prone property.
const hangLimit = 60 * time.Second

// hangLimitOther is the same for the other properties, whose runs are
// bounded by the simulator's step budget (a livelocked run of the largest
// budget takes a few minutes under load).
const hangLimitOther = 600 * time.Second

func matchKnown(known []KnownFinding, prop string, v *Violation) *KnownFinding {
	for i := range known {
		if known[i].matches(prop, v) {
			return &known[i]
		}
	}
	return nil
}

func writeJSON(path string, v interface{}) {
	if path == "" {
		return
	}
	b, err := json.MarshalIndent(v, "", " ")
	if err != nil {
		panic(err)
	}
	if err := os.WriteFile(path, b, 0o644); err != nil {
		panic(err)
	}
}

func runReplay(t *testing.T, prop Property, job *Job, res *WorkerResult) {
	b, err := os.ReadFile(job.Replay)
	if err != nil {
		panic(err)
	}
	var rp Replay
	if err := json.Unmarshal(b, &rp); err != nil {
		panic(err)
	}
	var c interface{}
	var x *Exec
	if rp.Regen {
		// generation mode: the tape continues after the generator's draws. A
		// stored case (htsverif resolve) takes precedence over the generated
		// one, so that the file keeps its meaning when the generator changes.
		tape := NewTape(rp.Seed, rp.Property, rp.Run)
		c = prop.Gen(tape, rp.Tier, rp.Run)
		if len(rp.Case) > 0 && string(rp.Case) != "null" {
			c = prop.New()
			if err := json.Unmarshal(rp.Case, c); err != nil {
				panic(err)
			}
		}
		x = NewExec(t, tape, res.Stats)
	} else {
		c = prop.New()
		if err := json.Unmarshal(rp.Case, c); err != nil {
			panic(err)
		}
		x = NewExec(t, ReplayTape(rp.Tapes), res.Stats)
	}
	vd := prop.Exec(x, c)
	res.Stats.Runs++
	res.ReplaySig = x.Sig
	if vd.V == nil {
		res.ReplayMsg = "no violation on replay"
		return
	}
	res.ReplayMsg = vd.V.Msg
	res.ReplayOK = vd.V.Class == rp.Class && x.Sig == rp.Sig
	if !res.ReplayOK {
		res.ReplayMsg = fmt.Sprintf("replay differs: class %q sig %x, recorded class %q sig %x; %s", vd.V.Class, x.Sig, rp.Class, rp.Sig, vd.V.Msg)
	}
	res.Violation = &Replay{Property: rp.Property, Kind: vd.V.Kind, Class: vd.V.Class, Msg: vd.V.Msg, Sig: x.Sig}
}

func TestRule(t *testing.T) {
	id := os.Getenv("HTSV_RULE")
	if id == "" {
		t.Skip()
	}
	p, err := Lookup(id)
	if err != nil {
		t.Fatal(err)
	}
	fmt.Println("RULE: " + p.Rule())
}
