package harness

import (
	"bytes"
	"encoding/binary"
	"fmt"
	"io"

	"github.com/biogo/hts/bam"
	"github.com/biogo/hts/sam"
)

// C05 — BAM round trip through the concurrent writer and reader pipelines.

type c05Case struct {
	Hdr   HdrSpec   `json:"hdr"`
	Recs  []RecSpec `json:"recs"`
	Level int       `json:"level"`
	WC    int       `json:"wc"`
	RD    int       `json:"rd"`
	Omit  int       `json:"omit"`
	Procs int       `json:"procs"`
	Kind  string    `json:"reader_kind"`
	Chunk int       `json:"chunk"`
	Delay int       `json:"delay"`
	Stmt  bool      `json:"stmt_yields,omitempty"`
	EOFD  bool      `json:"eof_with_data,omitempty"`
}

type c05 struct{}

func init() { register(c05{}) }

func (c05) ID() string { return "C05" }
func (c05) Runs(tier string) int {
	if tier == "quick" {
		return 6000
	}
	return 0
}
func (c05) New() interface{} { return &c05Case{} }
func (c05) Rule() string {
	return "seeded headers (0..4 references, a third of them with further @SQ tags of the specification: M5, UR, AS, SP, DS, AN, TP; optional @HD/@RG/@CO, comments with tabs; header text compared with the tags of a line in canonical order) and 0..40 records (names 1..254 bytes, all aux types incl. B arrays of every subtype, odd/even/zero-length sequences over the 16 codes, absent/present qualities, 0..65535 CIGAR ops, record sizes below/at/above the 4 KiB inline buffer and above one BGZF block) written with bam.Writer (level, wc) and read with bam.Reader (rd, Omit mode) under tape-chosen schedules, short reads and disk delays. Oracles: field-by-field equality with references by identity, io.EOF at the end, the bytes under the BGZF layer equal an independent BAM encoder's output except the bin field, Omit modes. non-trivial: >=1 record spans a BGZF block boundary or exceeds 4 KiB, wc>1 or rd>1, >=1 preemptive switch; distinct = (case, schedule signature)"
}

func (c05) Gen(t *Tape, tier string, run int) interface{} {
	c := &c05Case{Hdr: genHdr(t), Level: t.Range("work", -1, 9), WC: wcChoices[t.Draw("work", len(wcChoices))], RD: rdChoices[t.Draw("work", len(rdChoices))],
		Omit: t.Pick("work", 0, 0, 1, 2), Procs: t.Pick("work", 1, 2, 4), Kind: ReaderKinds[t.Draw("work", 2)], Chunk: t.Pick("work", 0, 0, 2), Delay: t.Pick("work", 0, 0, 1)}
	n := t.Draw("work", 12)
	if t.Chance("work", 1, 6) {
		n = 12 + t.Draw("work", 30)
	}
	big := t.Chance("work", 1, 8)
	for i := 0; i < n; i++ {
		size := 0
		switch k := t.Draw("work", 24); {
		case k < 3:
			size = 1
		case k == 3 && big:
			size = 2
		case k == 4 && big:
			size = 3
		}
		c.Recs = append(c.Recs, genRec(t, len(c.Hdr.Refs), size, i))
	}
	c.Stmt = !big && t.Chance("work", 1, 4)
	c.EOFD = t.Chance("work", 1, 3)
	// Sequence lengths at powers of two and next to them for one small record
	// in a third of the cases (block-wise fills and copies have their edge
	// there); drawn after everything else so that the rest of a case keeps
	// its meaning.
	if len(c.Recs) > 0 && t.Chance("work", 1, 3) {
		r := &c.Recs[t.Draw("work", len(c.Recs))]
		if r.SeqLen < 40 {
			r.SeqLen = t.Pick("work", 64, 128, 256, 512, 1024, 2048) + t.Pick("work", -1, 0, 0, 1)
			r.HasQual = t.Bool("work")
		}
	}
	return c
}

func (c05) Exec(x *Exec, ci interface{}) *Verdict {
	c := ci.(*c05Case)
	vd := &Verdict{}
	x.StmtAll = c.Stmt
	file := &File{X: x, Name: "f"}
	var werr error
	var wstage string
	x.Procs = c.Procs
	res := x.RunSim("write", 200+60*len(c.Recs), func() {
		h, err := c.Hdr.SamHeader()
		if err != nil {
			werr, wstage = err, "building the header through sam.NewHeader"
			return
		}
		bw, err := bam.NewWriterLevel(file.W(), h, c.Level, c.WC)
		if err != nil {
			werr, wstage = err, "bam.NewWriterLevel"
			return
		}
		for i := range c.Recs {
			rec, err := c.Recs[i].SamRecord(h)
			if err != nil {
				werr, wstage = err, fmt.Sprintf("building record %d through the sam API", i)
				return
			}
			if err := bw.Write(rec); err != nil {
				werr, wstage = err, fmt.Sprintf("Write of record %d", i)
				return
			}
		}
		if err := bw.Close(); err != nil {
			werr, wstage = err, "Close"
		}
	})
	if v, inc := StructuralViolation("write", &res); v != nil || inc != "" {
		vd.V, vd.Inconcl = v, inc
		return vd
	}
	if werr != nil {
		vd.V = Mismatch("write-error", "%s failed: %v", wstage, werr)
		return vd
	}
	// (2) the bytes under the BGZF layer are those of an independent encoder
	img := append([]byte(nil), file.Data...)
	flat, err := NewFlat(img)
	if err != nil {
		vd.V = Mismatch("bgzf-framing", "bam.Writer output is not valid BGZF: %v", err)
		return vd
	}
	// the header text may list the tags of a line in another order than the
	// specification of the case does: compared in canonical form, and the
	// encoder is then given the text as written
	text := c.Hdr.Text()
	if len(flat.Data) >= 8 && string(flat.Data[:4]) == "BAM\x01" {
		if n := int(binary.LittleEndian.Uint32(flat.Data[4:])); n >= 0 && 8+n <= len(flat.Data) {
			if written := string(flat.Data[8 : 8+n]); NormHeaderText(written) == NormHeaderText(text) {
				text = written
			}
		}
	}
	want := c.Hdr.EncodeBAMHeaderText(text)
	var recOff []int // offset of each record in the uncompressed stream
	for i := range c.Recs {
		recOff = append(recOff, len(want))
		want = append(want, c.Recs[i].EncodeBAM()...)
	}
	got := append([]byte(nil), flat.Data...)
	if len(got) == len(want) {
		for _, o := range recOff {
			got[o+14], got[o+15] = 0, 0 // bin field
		}
	}
	if !bytes.Equal(got, want) {
		d := firstDiff(got, want)
		where := "header"
		for i, o := range recOff {
			if d >= o {
				where = fmt.Sprintf("record %d (+%d)", i, d-o)
			}
		}
		vd.V = Mismatch("encoding", "BAM bytes differ from the independent encoder's: %d vs %d bytes, first difference at %d in %s", len(got), len(want), d, where)
		return vd
	}
	// (1)/(3) read back
	rfile := &File{X: x, Name: "f", Data: img, Chunk: c.Chunk, MaxDelay: c.Delay, EOFWithData: c.EOFD}
	var bad *Violation
	res = x.RunSim("read", estReadSteps(len(img), c.Chunk, c.Kind, c.Delay)+50*len(c.Recs), func() {
		br, err := bam.NewReader(rfile.As(c.Kind), c.RD)
		if err != nil {
			bad = Mismatch("open", "bam.NewReader on the writer's output = %v", err)
			return
		}
		br.Omit(c.Omit)
		h := br.Header()
		ht, _ := h.MarshalText()
		if NormHeaderText(string(ht)) != NormHeaderText(c.Hdr.Text()) {
			bad = Mismatch("header-text", "header read back as %q, written %q", ht, c.Hdr.Text())
			return
		}
		if len(h.Refs()) != len(c.Hdr.Refs) {
			bad = Mismatch("header-refs", "%d references read back, %d written", len(h.Refs()), len(c.Hdr.Refs))
			return
		}
		for i, r := range h.Refs() {
			if r.Name() != c.Hdr.Refs[i].Name || r.Len() != c.Hdr.Refs[i].Len || r.ID() != i {
				bad = Mismatch("header-refs", "reference %d read back as %s/%d id %d", i, r.Name(), r.Len(), r.ID())
				return
			}
		}
		var recs []*sam.Record
		for i := range c.Recs {
			rec, err := br.Read()
			if err != nil {
				bad = Mismatch("read-error", "Read of record %d of %d = %v", i, len(c.Recs), err)
				return
			}
			if msg := c.Recs[i].CheckRecord(rec, h, c.Omit); msg != "" {
				bad = Mismatch("record", "record %d: %s", i, msg)
				return
			}
			recs = append(recs, rec)
		}
		if rec, err := br.Read(); err != io.EOF || rec != nil {
			bad = Mismatch("no-eof", "Read after the last record = %v, %v; want nil, io.EOF", rec, err)
			return
		}
		// records returned earlier must not have been overwritten by later reads
		for i, rec := range recs {
			if msg := c.Recs[i].CheckRecord(rec, h, c.Omit); msg != "" {
				bad = Mismatch("record-aliased", "record %d changed after later reads: %s", i, msg)
				return
			}
		}
		if err := br.Close(); err != nil {
			bad = Mismatch("close", "Reader.Close = %v", err)
		}
	})
	if v, inc := StructuralViolation("read", &res); v != nil || inc != "" {
		vd.V, vd.Inconcl = v, inc
		return vd
	}
	if bad != nil {
		vd.V = bad
		return vd
	}
	spans := false
	for i, o := range recOff {
		end := len(want)
		if i+1 < len(recOff) {
			end = recOff[i+1]
		}
		if end-o > 4096+4 {
			spans = true
			x.Probe("record_above_inline_buffer")
		}
		// crosses a member boundary?
		for _, s := range flat.Start[1:] {
			if int64(o) < s && s < int64(end) {
				spans = true
				x.Probe("record_spans_block_boundary")
			}
		}
	}
	vd.NonTrivial = spans && (c.WC > 1 || c.RD > 1 || c.RD == 0 && c.Procs > 1) && x.Preempt >= 1
	vd.Sample = map[string]interface{}{"hdr": c.Hdr, "records": len(c.Recs), "first_record": firstRec(c.Recs), "level": c.Level, "wc": c.WC, "rd": c.RD, "omit": c.Omit, "bytes": len(want), "members": len(flat.Members), "steps": x.Steps}
	return vd
}

func firstRec(r []RecSpec) interface{} {
	if len(r) == 0 {
		return nil
	}
	return r[0]
}

func (c05) Shrinks(ci interface{}) []interface{} {
	c := ci.(*c05Case)
	var out []interface{}
	if len(c.Recs) > 1 {
		n := *c
		n.Recs = append([]RecSpec(nil), c.Recs[:len(c.Recs)/2]...)
		out = append(out, &n)
		n2 := *c
		n2.Recs = append([]RecSpec(nil), c.Recs[len(c.Recs)/2:]...)
		out = append(out, &n2)
	}
	for i := range c.Recs {
		n := *c
		n.Recs = append(append([]RecSpec(nil), c.Recs[:i]...), c.Recs[i+1:]...)
		out = append(out, &n)
	}
	for i, r := range c.Recs {
		if len(r.Aux) > 0 {
			n := *c
			n.Recs = append([]RecSpec(nil), c.Recs...)
			n.Recs[i].Aux = r.Aux[:len(r.Aux)-1]
			out = append(out, &n)
		}
		if r.SeqLen > 0 {
			n := *c
			n.Recs = append([]RecSpec(nil), c.Recs...)
			n.Recs[i].SeqLen = r.SeqLen / 2
			out = append(out, &n)
		}
		if r.NCigar > 0 {
			n := *c
			n.Recs = append([]RecSpec(nil), c.Recs...)
			n.Recs[i].NCigar = r.NCigar / 2
			out = append(out, &n)
		}
	}
	if c.WC != 1 || c.RD != 1 {
		n := *c
		n.WC, n.RD = 1, 1
		out = append(out, &n)
	}
	if c.Omit != 0 || c.Chunk != 0 || c.Delay != 0 || c.Level != -1 || c.EOFD {
		n := *c
		n.Omit, n.Chunk, n.Delay, n.Level, n.EOFD = 0, 0, 0, -1, false
		out = append(out, &n)
	}
	return out
}
