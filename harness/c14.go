package harness

import (
	"fmt"
	"sort"
	"strings"
	"time"

	"github.com/anishathalye/porcupine"
	"github.com/biogo/hts/bgzf"
	"github.com/biogo/hts/bgzf/cache"
)

// C14 — cache contract, sequentially and concurrently.

// COp is one cache operation of a client script.
type COp struct {
	Op   string `json:"op"` // put, get, peek, len, cap, resize, drop, free
	Base int    `json:"base,omitempty"`
	Used bool   `json:"used,omitempty"`
	N    int    `json:"n,omitempty"`
}

type c14Case struct {
	Kind    string  `json:"kind"` // lru, fifo, random
	Stats   bool    `json:"stats"`
	Cap     int     `json:"cap"`
	Clients [][]COp `json:"clients"` // 1 client: sequential
}

type c14 struct{}

func init() { register(c14{}) }

func (c14) ID() string { return "C14" }

var c14Alphabet = []COp{
	{Op: "put", Base: 1, Used: true}, {Op: "put", Base: 2, Used: true}, {Op: "put", Base: 3, Used: false},
	{Op: "get", Base: 1}, {Op: "get", Base: 3}, {Op: "peek", Base: 2}, {Op: "len"}, {Op: "drop", N: 1}, {Op: "resize", N: 1}, {Op: "free", N: 1},
}

const c14EnumLen = 4

func c14EnumCount() int {
	n := 1
	for i := 0; i < c14EnumLen; i++ {
		n *= len(c14Alphabet)
	}
	return n * 3 * 2 // kinds x capacities {1,2}
}

func (c14) Runs(tier string) int {
	if tier == "quick" {
		return c14EnumCount() + 20000
	}
	return 0
}
func (c14) New() interface{} { return &c14Case{} }
func (c14) Rule() string {
	return fmt.Sprintf("LRU/FIFO/Random (plain or wrapped in StatsRecorder) driven with blocks manufactured by an overlay-only helper in package bgzf, following the reader's ownership discipline (a block returned as evicted or not retained is recycled with another base). Runs 0..%d enumerate EVERY history of length %d over a %d-symbol alphabet x 3 kinds x capacities {1,2} (exhaustive axis); later runs sample sequential histories (<=30 ops, 6 bases, cap 1..4, incl. Resize/Drop/Free) and concurrent histories (2..4 clients x <=8 ops, incl. Resize/Drop/Free) with statement-level yields inside bgzf/cache. Sequential histories are checked step by step against a set-valued reference model (capacity, refusal of unused blocks when full, victim = an unused block if one exists else the earliest-Put used block / any for Random, Peek/Len/Cap consistency, base of returned blocks, statistics); concurrent ones with porcupine v1.3.0 against the same model (Illegal = violation, Unknown = inconclusive). non-trivial: sequential: >=1 eviction and >=1 recycled block; concurrent: >=2 operations overlapped; distinct = (case, schedule signature)", c14EnumCount(), c14EnumLen, len(c14Alphabet))
}

func genCOps(t *Tape, n int, concurrent bool) []COp {
	var ops []COp
	for i := 0; i < n; i++ {
		b := 1 + t.Draw("work", 6)
		switch k := t.Draw("work", 20); {
		case k < 8:
			ops = append(ops, COp{Op: "put", Base: b, Used: t.Chance("work", 2, 3)})
		case k < 12:
			ops = append(ops, COp{Op: "get", Base: b})
		case k < 14:
			ops = append(ops, COp{Op: "peek", Base: b})
		case k < 15:
			ops = append(ops, COp{Op: "len"})
		case k < 16:
			ops = append(ops, COp{Op: "cap"})
		case k < 17:
			ops = append(ops, COp{Op: "resize", N: 1 + t.Draw("work", 4)})
		case k < 19:
			ops = append(ops, COp{Op: "drop", N: t.Draw("work", 4)})
		default:
			ops = append(ops, COp{Op: "free", N: t.Draw("work", 5)})
		}
	}
	return ops
}

func (c14) Gen(t *Tape, tier string, run int) interface{} {
	kinds := []string{"lru", "fifo", "random"}
	if run < c14EnumCount() {
		r := run
		c := &c14Case{}
		c.Kind = kinds[r%3]
		r /= 3
		c.Cap = 1 + r%2
		r /= 2
		var ops []COp
		for i := 0; i < c14EnumLen; i++ {
			ops = append(ops, c14Alphabet[r%len(c14Alphabet)])
			r /= len(c14Alphabet)
		}
		c.Clients = [][]COp{ops}
		return c
	}
	c := &c14Case{Kind: kinds[t.Draw("work", 3)], Stats: t.Chance("work", 1, 3), Cap: 1 + t.Draw("work", 4)}
	if t.Bool("work") {
		n := 3 + t.Draw("work", 28)
		if tier == "thorough" && t.Chance("work", 1, 4) {
			n = 30 + t.Draw("work", 70) // deeper sequential histories in the thorough tier
		}
		c.Clients = [][]COp{genCOps(t, n, false)}
	} else {
		n := 2 + t.Draw("work", 3)
		for i := 0; i < n; i++ {
			ops := 1 + t.Draw("work", 8)
			if tier == "thorough" && n <= 3 && t.Chance("work", 1, 4) {
				ops = 8 + t.Draw("work", 5) // longer concurrent histories (porcupine stays tractable for <=3 clients)
			}
			c.Clients = append(c.Clients, genCOps(t, ops, true))
		}
	}
	return c
}

// ---- reference model -------------------------------------------------------

type cEnt struct {
	base int
	used bool
	id   int
}

// cConc is one concrete cache state: entries in Put order (oldest first).
type cConc struct {
	cap  int
	ents []cEnt
}

func (s cConc) enc() string {
	var b strings.Builder
	fmt.Fprintf(&b, "%d|", s.cap)
	for _, e := range s.ents {
		fmt.Fprintf(&b, "%d:%v:%d,", e.base, e.used, e.id)
	}
	return b.String()
}

func (s cConc) clone() cConc {
	return cConc{s.cap, append([]cEnt(nil), s.ents...)}
}

func (s cConc) find(base int) int {
	for i, e := range s.ents {
		if e.base == base {
			return i
		}
	}
	return -1
}

func (s cConc) without(i int) cConc {
	n := cConc{cap: s.cap}
	n.ents = append(append([]cEnt(nil), s.ents[:i]...), s.ents[i+1:]...)
	return n
}

// victims returns the indices that may be evicted from a full cache.
func (s cConc) victims(kind string) []int {
	var un []int
	for i, e := range s.ents {
		if !e.used {
			un = append(un, i)
		}
	}
	if len(un) > 0 {
		return un
	}
	if len(s.ents) == 0 {
		return nil
	}
	if kind == "random" {
		all := make([]int, len(s.ents))
		for i := range all {
			all[i] = i
		}
		return all
	}
	return []int{0} // earliest-Put used block
}

// dropOne returns the states reachable by evicting one block by policy.
func (s cConc) dropOne(kind string) []cConc {
	var out []cConc
	for _, v := range s.victims(kind) {
		out = append(out, s.without(v))
	}
	return out
}

func dropN(states []cConc, kind string, n int) []cConc {
	for ; n > 0; n-- {
		var next []cConc
		seen := map[string]bool{}
		progressed := false
		for _, s := range states {
			if len(s.ents) == 0 {
				if !seen[s.enc()] {
					seen[s.enc()] = true
					next = append(next, s)
				}
				continue
			}
			progressed = true
			for _, d := range s.dropOne(kind) {
				if !seen[d.enc()] {
					seen[d.enc()] = true
					next = append(next, d)
				}
			}
		}
		states = next
		if !progressed {
			break
		}
	}
	return states
}

// cIn / cOut are what the checker sees of one operation.
type cIn struct {
	Op   string
	Base int
	Used bool
	N    int
	ID   int // block id for put
}

type cOut struct {
	EvID     int  // put: id of the evicted block, 0 none
	Retained bool // put
	ID       int  // get: id of the returned block, 0 nil
	Exists   bool // peek
	Next     int64
	N        int  // len, cap
	OK       bool // free
}

const c14MemberSize = 1000

func baseOffset(b int) int64 { return int64(b) * 10000 }

// stepModel applies one operation to a set of possible concrete states and
// keeps those consistent with the observed output.
func stepModel(kind string, states []cConc, in cIn, out cOut) []cConc {
	var next []cConc
	seen := map[string]bool{}
	add := func(s cConc) {
		if k := s.enc(); !seen[k] {
			seen[k] = true
			next = append(next, s)
		}
	}
	for _, s := range states {
		switch in.Op {
		case "put":
			switch {
			case s.find(in.Base) >= 0:
				if out.EvID == in.ID && !out.Retained {
					add(s)
				}
			case len(s.ents) >= s.cap:
				if !in.Used {
					if out.EvID == in.ID && !out.Retained {
						add(s)
					}
					break
				}
				for _, v := range s.victims(kind) {
					if out.Retained && out.EvID == s.ents[v].id {
						n := s.without(v)
						n.ents = append(n.ents, cEnt{in.Base, in.Used, in.ID})
						add(n)
					}
				}
			default:
				if out.Retained && out.EvID == 0 {
					n := s.clone()
					n.ents = append(n.ents, cEnt{in.Base, in.Used, in.ID})
					add(n)
				}
			}
		case "get":
			if i := s.find(in.Base); i >= 0 {
				if out.ID == s.ents[i].id {
					add(s.without(i))
				}
			} else if out.ID == 0 {
				add(s)
			}
		case "peek":
			if i := s.find(in.Base); i >= 0 {
				if out.Exists && out.Next == baseOffset(in.Base)+c14MemberSize {
					add(s)
				}
			} else if !out.Exists && out.Next == -1 {
				add(s)
			}
		case "len":
			if out.N == len(s.ents) {
				add(s)
			}
		case "cap":
			if out.N == s.cap {
				add(s)
			}
		case "resize":
			ss := []cConc{s}
			if in.N < len(s.ents) {
				ss = dropN(ss, kind, len(s.ents)-in.N)
			}
			for _, d := range ss {
				d = d.clone()
				d.cap = in.N
				add(d)
			}
		case "drop":
			for _, d := range dropN([]cConc{s}, kind, in.N) {
				add(d)
			}
		case "free":
			empty := s.cap - len(s.ents)
			ss := []cConc{s}
			if in.N > empty {
				ss = dropN(ss, kind, in.N-empty)
			}
			for _, d := range ss {
				if out.OK == (d.cap-len(d.ents) >= in.N) && out.OK == (in.N <= s.cap) {
					add(d)
				}
			}
		}
	}
	return next
}

func encStates(ss []cConc) string {
	keys := make([]string, len(ss))
	for i, s := range ss {
		keys[i] = s.enc()
	}
	sort.Strings(keys)
	return strings.Join(keys, ";")
}

func decStates(enc string) []cConc {
	var out []cConc
	for _, k := range strings.Split(enc, ";") {
		var s cConc
		parts := strings.SplitN(k, "|", 2)
		fmt.Sscanf(parts[0], "%d", &s.cap)
		for _, e := range strings.Split(parts[1], ",") {
			if e == "" {
				continue
			}
			var ent cEnt
			f := strings.Split(e, ":")
			fmt.Sscanf(f[0], "%d", &ent.base)
			ent.used = f[1] == "true"
			fmt.Sscanf(f[2], "%d", &ent.id)
			s.ents = append(s.ents, ent)
		}
		out = append(out, s)
	}
	return out
}

// ---- execution ---------------------------------------------------------------

type c14Client struct {
	owned []bgzf.Block // blocks this client may overwrite
	ids   map[bgzf.Block]int
}

type c14Rec struct {
	client   int
	in       cIn
	out      cOut
	call, rt int64
	note     string // direct contract breach seen at the operation itself
}

func (c14) Exec(x *Exec, ci interface{}) *Verdict {
	c := ci.(*c14Case)
	vd := &Verdict{}
	x.StmtYields = true
	var cc cache.Cache
	switch c.Kind {
	case "lru":
		cc = cache.NewLRU(c.Cap)
	case "fifo":
		cc = cache.NewFIFO(c.Cap)
	default:
		cc = cache.NewRandom(c.Cap)
	}
	var bc bgzf.Cache = cc
	var sr *cache.StatsRecorder
	if c.Stats {
		sr = &cache.StatsRecorder{Cache: cc}
		bc = sr
	}
	ids := map[bgzf.Block]int{}
	putUsed := map[int]bool{}
	nextID := 0
	var clock int64
	var recs []c14Rec
	recycled := 0
	fifoGetUsed := false
	runClient := func(ci int, ops []COp) {
		var owned []bgzf.Block
		for _, op := range ops {
			in := cIn{Op: op.Op, Base: op.Base, Used: op.Used, N: op.N}
			var out cOut
			note := ""
			var blk bgzf.Block
			if op.Op == "put" {
				if len(owned) > 0 {
					blk = owned[len(owned)-1]
					owned = owned[:len(owned)-1]
					bgzf.VerifResetBlock(blk, baseOffset(op.Base), c14MemberSize, op.Used, []byte{byte(op.Base)})
					recycled++
				} else {
					blk = bgzf.VerifNewBlock(baseOffset(op.Base), c14MemberSize, op.Used, []byte{byte(op.Base)})
					nextID++
					ids[blk] = nextID
				}
				in.ID = ids[blk]
				if op.Used {
					putUsed[in.ID] = true // sticky: a concurrent recycler may re-put it unused meanwhile
				}
			}
			clock++
			call := clock
			switch op.Op {
			case "put":
				ev, retained := bc.Put(blk)
				out.Retained = retained
				if ev != nil {
					out.EvID = ids[ev]
					if out.EvID == 0 {
						note = "Put returned a block that was never put"
					}
					owned = append(owned, ev)
				}
				if !retained && ev != blk {
					note = "Put reported not retained but did not hand the block back"
				}
			case "get":
				b := bc.Get(baseOffset(op.Base))
				if b != nil {
					out.ID = ids[b]
					if b.Base() != baseOffset(op.Base) {
						note = fmt.Sprintf("Get(%d) returned a block whose base is %d", baseOffset(op.Base), b.Base())
					}
					// identification of known finding F2b: FIFO.Get of a block
					// that was Put as used (judged by the Put, not by the block's
					// current flag, which a concurrent recycler may have changed)
					if c.Kind == "fifo" && (b.Used() || putUsed[ids[b]]) {
						fifoGetUsed = true
					}
					owned = append(owned, b)
				}
			case "peek":
				out.Exists, out.Next = bc.Peek(baseOffset(op.Base))
			case "len":
				out.N = cc.Len()
			case "cap":
				out.N = cc.Cap()
			case "resize":
				cc.Resize(op.N)
			case "drop":
				cc.Drop(op.N)
			case "free":
				out.OK = cache.Free(op.N, cc)
			}
			clock++
			recs = append(recs, c14Rec{client: ci, in: in, out: out, call: call, rt: clock, note: note})
			x.Fold("c14", uint64(ci), uint64(out.EvID), uint64(out.ID), uint64(out.N), uint64(b2i(out.Retained)), uint64(b2i(out.Exists)))
		}
	}
	est := 0
	for _, ops := range c.Clients {
		est += 60 * len(ops)
	}
	res := x.RunSim("cache", est+100, func() {
		if len(c.Clients) == 1 {
			runClient(0, c.Clients[0])
			return
		}
		for i := 1; i < len(c.Clients); i++ {
			i := i
			simhookGoClient(fmt.Sprintf("client%d", i), func() { runClient(i, c.Clients[i]) })
		}
		runClient(0, c.Clients[0])
	})
	suffix := ""
	if fifoGetUsed {
		suffix = ":after-fifo-get-of-used-block"
	}
	if v, inc := StructuralViolation(c.Kind, &res); v != nil || inc != "" {
		if v != nil {
			v.Class += suffix
		}
		vd.V, vd.Inconcl = v, inc
		return vd
	}
	for _, r := range recs {
		if r.note != "" {
			var hs []string
			for _, q := range recs {
				hs = append(hs, fmt.Sprintf("c%d[%d,%d] %s(base=%d used=%v n=%d id=%d) -> %+v", q.client, q.call, q.rt, q.in.Op, q.in.Base, q.in.Used, q.in.N, q.in.ID, q.out))
			}
			vd.V = Mismatch(c.Kind+":contract"+suffix, "client %d %+v: %s\nhistory:\n%s", r.client, r.in, r.note, strings.Join(hs, "\n"))
			return vd
		}
	}
	init := []cConc{{cap: c.Cap}}
	overlap := 0
	if len(c.Clients) == 1 {
		states := init
		evictions := 0
		for i, r := range recs {
			next := stepModel(c.Kind, states, r.in, r.out)
			if len(next) == 0 {
				vd.V = Mismatch(c.Kind+":sequential-model"+suffix, "%s cache (cap %d): operation %d %+v returned %+v, which no state the reference model allows at that point can produce; model states before it: %s", c.Kind, c.Cap, i, r.in, r.out, encStates(states))
				return vd
			}
			if r.in.Op == "put" && r.out.Retained && r.out.EvID != 0 {
				evictions++
			}
			states = next
		}
		vd.NonTrivial = evictions >= 1 && recycled >= 1
	} else {
		var ops []porcupine.Operation
		for _, r := range recs {
			ops = append(ops, porcupine.Operation{ClientId: r.client, Input: r.in, Call: r.call, Output: r.out, Return: r.rt})
		}
		for i := range recs {
			for j := i + 1; j < len(recs); j++ {
				if recs[i].client != recs[j].client && recs[i].call < recs[j].rt && recs[j].call < recs[i].rt {
					overlap++
				}
			}
		}
		kind := c.Kind
		model := porcupine.Model{
			Init: func() interface{} { return encStates(init) },
			Step: func(state, input, output interface{}) (bool, interface{}) {
				next := stepModel(kind, decStates(state.(string)), input.(cIn), output.(cOut))
				if len(next) == 0 {
					return false, state
				}
				return true, encStates(next)
			},
		}
		switch porcupine.CheckOperationsTimeout(model, ops, 10*time.Second) {
		case porcupine.Illegal:
			var hs []string
			for _, r := range recs {
				hs = append(hs, fmt.Sprintf("c%d[%d,%d] %s(base=%d used=%v n=%d id=%d) -> %+v", r.client, r.call, r.rt, r.in.Op, r.in.Base, r.in.Used, r.in.N, r.in.ID, r.out))
			}
			vd.V = Mismatch(c.Kind+":not-linearizable"+suffix, "%s cache (cap %d): the concurrent history has no linearization in the sequential model:\n%s", c.Kind, c.Cap, strings.Join(hs, "\n"))
			return vd
		case porcupine.Unknown:
			vd.Inconcl = "porcupine_unknown"
			return vd
		}
		vd.NonTrivial = overlap >= 2
		if overlap > 0 {
			x.Probe("overlapping_operations")
		}
	}
	if sr != nil {
		st := sr.Stats()
		var want cache.Stats
		for _, r := range recs {
			switch r.in.Op {
			case "get":
				want.Gets++
				if r.out.ID == 0 {
					want.Misses++
				}
			case "put":
				want.Puts++
				if r.out.Retained {
					want.Retains++
					if r.out.EvID != 0 {
						want.Evictions++
					}
				}
			}
		}
		if st != want {
			vd.V = Mismatch(c.Kind+":stats"+suffix, "StatsRecorder reports %+v, the history implies %+v", st, want)
			return vd
		}
		x.Probe("stats_checked")
	}
	if recycled > 0 {
		x.Probe("recycled_block")
	}
	vd.Sample = map[string]interface{}{"case": c, "ops": len(recs), "overlapping_pairs": overlap, "steps": x.Steps}
	return vd
}

func (c14) Shrinks(ci interface{}) []interface{} {
	c := ci.(*c14Case)
	var out []interface{}
	for ci2, ops := range c.Clients {
		if len(c.Clients) > 1 {
			n := *c
			n.Clients = append(append([][]COp(nil), c.Clients[:ci2]...), c.Clients[ci2+1:]...)
			out = append(out, &n)
		}
		for i := range ops {
			n := *c
			n.Clients = append([][]COp(nil), c.Clients...)
			n.Clients[ci2] = append(append([]COp(nil), ops[:i]...), ops[i+1:]...)
			out = append(out, &n)
		}
	}
	if c.Stats {
		n := *c
		n.Stats = false
		out = append(out, &n)
	}
	if c.Cap > 1 {
		n := *c
		n.Cap = c.Cap - 1
		out = append(out, &n)
	}
	return out
}
