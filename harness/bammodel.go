package harness

import (
	"encoding/binary"
	"fmt"
	"math"
	"math/rand/v2"
	"sort"
	"strings"

	"github.com/biogo/hts/sam"
)

// Independent BAM codec written from the SAM specification, section 4.2.
// It shares no code with packages bam or sam; sam.Record values are built
// only through the public API.

// HdrSpec describes a header.
type HdrSpec struct {
	SO       string    `json:"so"` // "", unknown, unsorted, queryname, coordinate ("" = no @HD line)
	Refs     []RefSpec `json:"refs"`
	RGs      []string  `json:"rgs,omitempty"`
	Comments []string  `json:"comments,omitempty"`
}

type RefSpec struct {
	Name string `json:"name"`
	Len  int    `json:"len"`
	// Extra holds further @SQ tags in SAM text form, each preceded by a tab
	// (e.g. "\tM5:...\tUR:file:///ref.fa").
	Extra string `json:"extra,omitempty"`
}

// Text is the SAM header text (spec section 1.3).
func (h *HdrSpec) Text() string {
	var b strings.Builder
	if h.SO != "" {
		fmt.Fprintf(&b, "@HD\tVN:1.6\tSO:%s\n", h.SO)
	}
	for _, r := range h.Refs {
		fmt.Fprintf(&b, "@SQ\tSN:%s\tLN:%d%s\n", r.Name, r.Len, r.Extra)
	}
	for _, g := range h.RGs {
		fmt.Fprintf(&b, "@RG\tID:%s\n", g)
	}
	for _, c := range h.Comments {
		fmt.Fprintf(&b, "@CO\t%s\n", c)
	}
	return b.String()
}

// NormHeaderText brings SAM header text into a canonical form for comparison:
// the order of the tags within a header line carries no meaning in SAM (the
// record type comes first; @CO lines are free text), so tags are sorted.
func NormHeaderText(s string) string {
	lines := strings.Split(s, "\n")
	for i, l := range lines {
		if strings.HasPrefix(l, "@CO") {
			continue
		}
		f := strings.Split(l, "\t")
		if len(f) > 2 {
			sort.Strings(f[1:])
			lines[i] = strings.Join(f, "\t")
		}
	}
	return strings.Join(lines, "\n")
}

// EncodeBAMHeader encodes the binary header.
func (h *HdrSpec) EncodeBAMHeader() []byte { return h.EncodeBAMHeaderText(h.Text()) }

// EncodeBAMHeaderText encodes the binary header around the given text.
func (h *HdrSpec) EncodeBAMHeaderText(text string) []byte {
	var b []byte
	b = append(b, 'B', 'A', 'M', 1)
	b = binary.LittleEndian.AppendUint32(b, uint32(len(text)))
	b = append(b, text...)
	b = binary.LittleEndian.AppendUint32(b, uint32(len(h.Refs)))
	for _, r := range h.Refs {
		b = binary.LittleEndian.AppendUint32(b, uint32(len(r.Name)+1))
		b = append(b, r.Name...)
		b = append(b, 0)
		b = binary.LittleEndian.AppendUint32(b, uint32(r.Len))
	}
	return b
}

// SamHeader builds the library's header through its public API.
func (h *HdrSpec) SamHeader() (*sam.Header, error) {
	return sam.NewHeader([]byte(h.Text()), nil)
}

// AuxSpec describes one auxiliary field.
type AuxSpec struct {
	Tag  string `json:"tag"`
	Typ  string `json:"typ"` // A c C s S i I f Z H B
	Sub  string `json:"sub,omitempty"`
	N    int    `json:"n,omitempty"` // Z/H length, B count
	Seed uint32 `json:"seed"`
}

// RecSpec describes one alignment record compactly.
type RecSpec struct {
	Name    string    `json:"name"`
	RefID   int       `json:"ref"`
	Pos     int       `json:"pos"`
	MapQ    int       `json:"mapq"`
	Flags   int       `json:"flags"`
	NCigar  int       `json:"ncigar"`
	SeqLen  int       `json:"seqlen"`
	HasQual bool      `json:"qual"`
	NextRef int       `json:"nextref"`
	NextPos int       `json:"nextpos"`
	TLen    int       `json:"tlen"`
	Aux     []AuxSpec `json:"aux,omitempty"`
	Seed    uint32    `json:"seed"`
}

const seqCodes = "=ACMGRSVTWYHKDBN"

func (r *RecSpec) rng() *rand.Rand { return rand.New(rand.NewPCG(uint64(r.Seed), 77)) }

// Cigar returns the operations as BAM-encoded uint32 (op_len<<4|op).
func (r *RecSpec) Cigar() []uint32 {
	g := r.rng()
	c := make([]uint32, r.NCigar)
	for i := range c {
		l := uint32(1 + g.IntN(200))
		if g.IntN(50) == 0 {
			l = 1<<28 - 1
		}
		c[i] = l<<4 | uint32(g.IntN(9))
	}
	return c
}

// Letters returns the sequence as text.
func (r *RecSpec) Letters() []byte {
	g := rand.New(rand.NewPCG(uint64(r.Seed), 78))
	s := make([]byte, r.SeqLen)
	for i := range s {
		s[i] = seqCodes[g.IntN(16)]
	}
	return s
}

// Quals returns the qualities or nil.
func (r *RecSpec) Quals() []byte {
	if !r.HasQual {
		return nil
	}
	g := rand.New(rand.NewPCG(uint64(r.Seed), 79))
	q := make([]byte, r.SeqLen)
	for i := range q {
		q[i] = byte(g.IntN(94))
	}
	return q
}

// auxValue returns the value for sam.NewAux and the raw BAM bytes
// (tag, type, value) defined by the specification.
func (a *AuxSpec) value() (interface{}, []byte) {
	g := rand.New(rand.NewPCG(uint64(a.Seed), 80))
	raw := []byte{a.Tag[0], a.Tag[1], a.Typ[0]}
	u32 := g.Uint32()
	switch a.Typ {
	case "A":
		c := byte('!' + u32%94)
		return sam.ASCII(c), append(raw, c)
	case "c":
		return int8(u32), append(raw, byte(u32))
	case "C":
		return uint8(u32), append(raw, byte(u32))
	case "s":
		return int16(u32), binary.LittleEndian.AppendUint16(raw, uint16(u32))
	case "S":
		return uint16(u32), binary.LittleEndian.AppendUint16(raw, uint16(u32))
	case "i":
		return int32(u32), binary.LittleEndian.AppendUint32(raw, u32)
	case "I":
		return u32, binary.LittleEndian.AppendUint32(raw, u32)
	case "f":
		f := float32(int32(u32)) / 1024
		return f, binary.LittleEndian.AppendUint32(raw, math.Float32bits(f))
	case "Z":
		s := make([]byte, a.N)
		for i := range s {
			s[i] = byte(' ' + g.IntN(95))
		}
		return sam.Text(s), append(append(raw, s...), 0)
	case "H":
		const hexd = "0123456789ABCDEF"
		s := make([]byte, 2*a.N)
		for i := range s {
			s[i] = hexd[g.IntN(16)]
		}
		return sam.Hex(s), append(append(raw, s...), 0)
	case "B":
		raw = append(raw, a.Sub[0])
		raw = binary.LittleEndian.AppendUint32(raw, uint32(a.N))
		switch a.Sub {
		case "c":
			v := make([]int8, a.N)
			for i := range v {
				v[i] = int8(g.Uint32())
				raw = append(raw, byte(v[i]))
			}
			return v, raw
		case "C":
			v := make([]uint8, a.N)
			for i := range v {
				v[i] = uint8(g.Uint32())
				raw = append(raw, v[i])
			}
			return v, raw
		case "s":
			v := make([]int16, a.N)
			for i := range v {
				v[i] = int16(g.Uint32())
				raw = binary.LittleEndian.AppendUint16(raw, uint16(v[i]))
			}
			return v, raw
		case "S":
			v := make([]uint16, a.N)
			for i := range v {
				v[i] = uint16(g.Uint32())
				raw = binary.LittleEndian.AppendUint16(raw, v[i])
			}
			return v, raw
		case "i":
			v := make([]int32, a.N)
			for i := range v {
				v[i] = int32(g.Uint32())
				raw = binary.LittleEndian.AppendUint32(raw, uint32(v[i]))
			}
			return v, raw
		case "I":
			v := make([]uint32, a.N)
			for i := range v {
				v[i] = g.Uint32()
				raw = binary.LittleEndian.AppendUint32(raw, v[i])
			}
			return v, raw
		default: // f
			v := make([]float32, a.N)
			for i := range v {
				v[i] = float32(int32(g.Uint32())) / 4096
				raw = binary.LittleEndian.AppendUint32(raw, math.Float32bits(v[i]))
			}
			return v, raw
		}
	}
	panic("bammodel: unknown aux type " + a.Typ)
}

// EncodeBAM encodes the record as the specification lays it out; bin is
// written as 0 (callers ignore the two bin bytes when comparing).
func (r *RecSpec) EncodeBAM() []byte {
	cig := r.Cigar()
	letters := r.Letters()
	var body []byte
	le32 := func(v int) { body = binary.LittleEndian.AppendUint32(body, uint32(int32(v))) }
	le32(r.RefID)
	le32(r.Pos)
	body = append(body, byte(len(r.Name)+1), byte(r.MapQ))
	body = append(body, 0, 0) // bin
	body = binary.LittleEndian.AppendUint16(body, uint16(len(cig)))
	body = binary.LittleEndian.AppendUint16(body, uint16(r.Flags))
	le32(r.SeqLen)
	le32(r.NextRef)
	le32(r.NextPos)
	le32(r.TLen)
	body = append(body, r.Name...)
	body = append(body, 0)
	for _, c := range cig {
		body = binary.LittleEndian.AppendUint32(body, c)
	}
	for i := 0; i < len(letters); i += 2 {
		hi := byte(strings.IndexByte(seqCodes, letters[i]))
		lo := byte(0)
		if i+1 < len(letters) {
			lo = byte(strings.IndexByte(seqCodes, letters[i+1]))
		}
		body = append(body, hi<<4|lo)
	}
	if q := r.Quals(); q != nil {
		body = append(body, q...)
	} else {
		for i := 0; i < r.SeqLen; i++ {
			body = append(body, 0xff)
		}
	}
	for i := range r.Aux {
		_, raw := r.Aux[i].value()
		body = append(body, raw...)
	}
	out := binary.LittleEndian.AppendUint32(nil, uint32(len(body)))
	return append(out, body...)
}

// SamRecord builds the library's record through its public API.
func (r *RecSpec) SamRecord(h *sam.Header) (*sam.Record, error) {
	rec := &sam.Record{
		Name:    r.Name,
		Pos:     r.Pos,
		MapQ:    byte(r.MapQ),
		Flags:   sam.Flags(r.Flags),
		MatePos: r.NextPos,
		TempLen: r.TLen,
		Seq:     sam.NewSeq(r.Letters()),
		Qual:    r.Quals(),
	}
	if r.RefID >= 0 {
		rec.Ref = h.Refs()[r.RefID]
	}
	if r.NextRef >= 0 {
		rec.MateRef = h.Refs()[r.NextRef]
	}
	for _, c := range r.Cigar() {
		rec.Cigar = append(rec.Cigar, sam.NewCigarOp(sam.CigarOpType(c&0xf), int(c>>4)))
	}
	for i := range r.Aux {
		v, _ := r.Aux[i].value()
		a, err := sam.NewAux(sam.NewTag(r.Aux[i].Tag), v)
		if err != nil {
			return nil, err
		}
		rec.AuxFields = append(rec.AuxFields, a)
	}
	return rec, nil
}

// CheckRecord compares a record read back with its specification.
func (r *RecSpec) CheckRecord(got *sam.Record, h *sam.Header, omit int) string {
	if got.Name != r.Name {
		return fmt.Sprintf("name %q, want %q", got.Name, r.Name)
	}
	wantRef := (*sam.Reference)(nil)
	if r.RefID >= 0 {
		wantRef = h.Refs()[r.RefID]
	}
	if got.Ref != wantRef {
		return fmt.Sprintf("reference %v, want header reference %d", got.Ref, r.RefID)
	}
	wantMate := (*sam.Reference)(nil)
	if r.NextRef >= 0 {
		wantMate = h.Refs()[r.NextRef]
	}
	if got.MateRef != wantMate {
		return fmt.Sprintf("mate reference %v, want header reference %d", got.MateRef, r.NextRef)
	}
	if got.Pos != r.Pos || got.MatePos != r.NextPos || got.TempLen != r.TLen || int(got.MapQ) != r.MapQ || int(got.Flags) != r.Flags {
		return fmt.Sprintf("fixed fields pos=%d mpos=%d tlen=%d mapq=%d flags=%d, want %d %d %d %d %d", got.Pos, got.MatePos, got.TempLen, got.MapQ, got.Flags, r.Pos, r.NextPos, r.TLen, r.MapQ, r.Flags)
	}
	cig := r.Cigar()
	if len(got.Cigar) != len(cig) {
		return fmt.Sprintf("%d CIGAR operations, want %d", len(got.Cigar), len(cig))
	}
	for i, c := range cig {
		if uint32(got.Cigar[i]) != c {
			return fmt.Sprintf("CIGAR op %d = %#x, want %#x", i, uint32(got.Cigar[i]), c)
		}
	}
	if omit >= 2 {
		if got.Seq.Length != 0 || len(got.Qual) != 0 || len(got.AuxFields) != 0 {
			return "AllVariableLengthData omitted, but sequence, quality or aux data present"
		}
		return ""
	}
	if got.Seq.Length != r.SeqLen || string(got.Seq.Expand()) != string(r.Letters()) {
		return fmt.Sprintf("sequence of length %d differs (want length %d)", got.Seq.Length, r.SeqLen)
	}
	wq := r.Quals()
	if wq == nil {
		for _, q := range got.Qual {
			if q != 0xff {
				return "absent qualities read back as values"
			}
		}
		if len(got.Qual) != 0 && len(got.Qual) != r.SeqLen {
			return "absent qualities read back with a wrong length"
		}
	} else if string(got.Qual) != string(wq) {
		return "qualities differ"
	}
	if omit >= 1 {
		if len(got.AuxFields) != 0 {
			return "AuxTags omitted, but aux data present"
		}
		return ""
	}
	if len(got.AuxFields) != len(r.Aux) {
		return fmt.Sprintf("%d aux fields, want %d", len(got.AuxFields), len(r.Aux))
	}
	for i := range r.Aux {
		_, raw := r.Aux[i].value()
		// the in-memory form drops the terminating NUL of Z/H values
		if r.Aux[i].Typ == "Z" || r.Aux[i].Typ == "H" {
			raw = raw[:len(raw)-1]
		}
		if string(got.AuxFields[i]) != string(raw) {
			return fmt.Sprintf("aux field %d (%s:%s) differs byte for byte", i, r.Aux[i].Tag, r.Aux[i].Typ)
		}
	}
	return ""
}

// genHdr draws a header.
func genHdr(t *Tape) HdrSpec {
	h := HdrSpec{SO: []string{"", "unknown", "unsorted", "queryname", "coordinate"}[t.Draw("work", 5)]}
	n := t.Draw("work", 5)
	for i := 0; i < n; i++ {
		h.Refs = append(h.Refs, RefSpec{Name: fmt.Sprintf("chr%c%d", 'a'+byte(t.Draw("work", 26)), i), Len: 1 + t.Draw("work", 1<<29)})
	}
	for i := range h.Refs {
		// further @SQ tags of the specification, drawn after everything else
		// about the references so that older seeds keep their meaning
		if t.Chance("work", 1, 3) {
			h.Refs[i].Extra = genRefExtra(t)
		}
	}
	if t.Chance("work", 1, 4) {
		h.RGs = []string{"g1"}
	}
	if t.Chance("work", 1, 4) {
		h.Comments = []string{"made by htsverif"}
		if t.Bool("work") {
			// a comment line is free text after "@CO\t": it may hold tabs
			h.Comments = append(h.Comments, "col1\tcol2\tcol3")
		}
	}
	return h
}

// refExtras are @SQ tag sets of the SAM specification (AS, M5, SP, UR, and
// DS/AN/TP added in v1.6).
var refExtras = []string{
	"\tM5:0123456789abcdef0123456789abcdef",
	"\tUR:file:///data/ref.fa",
	"\tAS:GRCh38\tSP:Homo sapiens",
	"\tAS:asm1\tM5:ffffffffffffffffffffffffffffffff\tSP:sp\tUR:http://example.org/ref.fa",
	"\tDS:a description",
	"\tAN:alt1,alt2\tTP:circular",
}

func genRefExtra(t *Tape) string { return refExtras[t.Draw("work", len(refExtras))] }

var auxTypes = []string{"A", "c", "C", "s", "S", "i", "I", "f", "Z", "H", "B"}

// genRec draws a record. size hints: 0 small, 1 around the 4 KiB inline
// buffer, 2 larger than a BGZF block.
func genRec(t *Tape, nrefs int, size int, idx int) RecSpec {
	r := RecSpec{Seed: uint32(t.Draw("work", 1<<30))}
	nl := 1 + t.Draw("work", 20)
	if t.Chance("work", 1, 20) {
		nl = 254
	}
	r.Name = fmt.Sprintf("r%d_", idx)
	for len(r.Name) < nl {
		r.Name += string(rune('a' + t.Draw("work", 26)))
	}
	r.Name = r.Name[:nl]
	r.RefID, r.NextRef = -1, -1
	if nrefs > 0 && t.Chance("work", 4, 5) {
		r.RefID = t.Draw("work", nrefs)
		r.Pos = t.Draw("work", 1<<29-1)
		switch t.Draw("work", 3) {
		case 0:
			r.NextRef = r.RefID
			r.NextPos = t.Draw("work", 1<<29-1)
		case 1:
			r.NextRef = t.Draw("work", nrefs)
			r.NextPos = t.Draw("work", 1<<29-1)
		}
	} else {
		r.Pos, r.NextPos = -1, -1
	}
	r.MapQ = t.Draw("work", 256)
	r.Flags = t.Draw("work", 1<<16)
	r.TLen = t.Draw("work", 2001) - 1000
	r.NCigar = t.Draw("work", 6)
	r.SeqLen = t.Draw("work", 40)
	switch size {
	case 1:
		// aim at the reader's 4096-byte inline buffer: fixed 32 + name + cigar + (seq+1)/2 + seq
		r.SeqLen = (4096-32-len(r.Name)-1-4*r.NCigar)*2/3 + t.Draw("work", 7) - 3
		r.Aux = nil
	case 2:
		r.SeqLen = 44000 + t.Draw("work", 3000)
	case 3:
		r.NCigar = []int{2000, 65535}[t.Draw("work", 2)]
	}
	r.HasQual = t.Chance("work", 2, 3)
	na := t.Draw("work", 5)
	if size == 1 {
		na = t.Draw("work", 2)
	}
	for i := 0; i < na; i++ {
		a := AuxSpec{Tag: string([]byte{byte('A' + t.Draw("work", 26)), byte('a' + t.Draw("work", 26))}), Typ: auxTypes[t.Draw("work", len(auxTypes))], Seed: uint32(t.Draw("work", 1<<30))}
		switch a.Typ {
		case "Z", "H":
			a.N = t.Draw("work", 12)
		case "B":
			a.Sub = []string{"c", "C", "s", "S", "i", "I", "f"}[t.Draw("work", 7)]
			a.N = t.Draw("work", 9)
		}
		r.Aux = append(r.Aux, a)
	}
	return r
}
