package harness

import (
	"errors"
	"io"
)

// ErrInjected is the error every injected I/O fault returns.
var ErrInjected = errors.New("simdisk: injected I/O error")

// Fault is one planned fault on a simulated file.
type Fault struct {
	Op         string `json:"op"`   // write, read, seek
	At         int    `json:"at"`   // 0-based index of the underlying call of that kind
	Kind       string `json:"kind"` // err (no data), partial (some data, then the error)
	Persistent bool   `json:"persistent"`
}

// WriteRec is one journal entry: an underlying Write that returned.
type WriteRec struct {
	Call int
	Off  int
	N    int
	Err  bool
	Step int
}

// File is a simulated disk file. Every call is a scheduling point and may be
// delayed by extra rounds; reads may be chunked; planned faults fire at the
// given call indices. All choices come from the tape's disk stream.
type File struct {
	X    *Exec
	Name string
	Data []byte
	pos  int64

	Faults []Fault
	// Chunk mode for reads: 0 full, 1 one byte, 2 random short.
	Chunk int
	// EOFWithData: the final bytes are returned together with io.EOF.
	EOFWithData bool
	// ZeroReads: a Read occasionally (never twice in a row) returns (0, nil),
	// which io.Reader permits and callers must treat as "nothing happened".
	ZeroReads bool
	lastZero  bool
	// MaxDelay is the maximum number of extra scheduling rounds per call.
	MaxDelay int

	Writes, Reads, Seeks, ByteReads int
	Journal                         []WriteRec
	// OnWrite is called after every underlying Write returns (crash point).
	OnWrite func(f *File)
	// Touched marks offsets that were read (C11).
	Touched []bool

	failedW, failedR, failedS bool
	Fired                     []string
	FiredStep                 int
}

func (f *File) delay(site string) {
	f.X.Yield(site)
	if f.MaxDelay > 0 {
		n := f.X.Tape.Draw("disk", f.MaxDelay+1)
		for i := 0; i < n; i++ {
			f.X.Yield(site + ":delay")
		}
	}
}

func (f *File) fault(op string, call int) *Fault {
	for i := range f.Faults {
		ft := &f.Faults[i]
		if ft.Op == op && ft.At == call {
			return ft
		}
	}
	return nil
}

func (f *File) fired(kind string, persistent bool) {
	if persistent {
		kind += "/persistent"
	} else {
		kind += "/transient"
	}
	f.Fired = append(f.Fired, kind)
	f.X.Fault(kind)
	if f.X.Sim != nil {
		f.FiredStep = f.X.Sim.Step()
	}
}

// Write implements io.Writer.
func (f *File) Write(p []byte) (n int, err error) {
	f.delay("disk.Write:" + f.Name)
	call := f.Writes
	f.Writes++
	off := len(f.Data)
	defer func() {
		step := 0
		if f.X.Sim != nil {
			step = f.X.Sim.Step()
			f.X.Sim.Fold("disk.Write", uint64(call), uint64(n), hashBytes(p[:n]))
		}
		f.Journal = append(f.Journal, WriteRec{Call: call, Off: off, N: n, Err: err != nil, Step: step})
		if f.OnWrite != nil {
			f.OnWrite(f)
		}
	}()
	if f.failedW {
		f.X.Fault("write-err-after-persistent")
		return 0, ErrInjected
	}
	if ft := f.fault("write", call); ft != nil {
		if ft.Persistent {
			f.failedW = true
		}
		if ft.Kind == "partial" && len(p) > 1 {
			n = 1 + f.X.Tape.Draw("disk", len(p)-1)
			f.Data = append(f.Data, p[:n]...)
			f.fired("write-partial", ft.Persistent)
			return n, ErrInjected
		}
		f.fired("write-err", ft.Persistent)
		return 0, ErrInjected
	}
	f.Data = append(f.Data, p...)
	return len(p), nil
}

func (f *File) touch(from, to int64) {
	if f.Touched == nil {
		return
	}
	for i := from; i < to && i < int64(len(f.Touched)); i++ {
		f.Touched[i] = true
	}
}

// Read implements io.Reader.
func (f *File) Read(p []byte) (n int, err error) {
	f.delay("disk.Read:" + f.Name)
	call := f.Reads
	f.Reads++
	defer func() {
		if f.X.Sim != nil {
			e := uint64(0)
			if err != nil {
				e = 1
			}
			f.X.Sim.Fold("disk.Read", uint64(call), uint64(n), e)
		}
	}()
	if f.failedR {
		f.X.Fault("read-err-after-persistent")
		return 0, ErrInjected
	}
	if len(p) == 0 {
		return 0, nil
	}
	ft := f.fault("read", call)
	if ft != nil && ft.Persistent {
		f.failedR = true
	}
	if ft != nil && ft.Kind != "partial" {
		f.fired("read-err", ft.Persistent)
		return 0, ErrInjected
	}
	remain := int64(len(f.Data)) - f.pos
	if remain <= 0 {
		if ft != nil {
			f.fired("read-err-at-eof", ft.Persistent)
			return 0, ErrInjected
		}
		return 0, io.EOF
	}
	if f.ZeroReads && ft == nil {
		if !f.lastZero && f.X.Tape.Draw("disk", 6) == 0 {
			f.lastZero = true
			f.X.Fault("read-zero-nil")
			return 0, nil
		}
		f.lastZero = false
	}
	want := int64(len(p))
	if want > remain {
		want = remain
	}
	switch f.Chunk {
	case 1:
		want = 1
		f.X.Stats.Extra["disk_short_reads"]++
	case 2:
		if want > 1 {
			w := 1 + int64(f.X.Tape.Draw("disk", int(want)))
			if w < want {
				f.X.Stats.Extra["disk_short_reads"]++
			}
			want = w
		}
	}
	n = copy(p, f.Data[f.pos:f.pos+want])
	f.touch(f.pos, f.pos+int64(n))
	f.pos += int64(n)
	if ft != nil {
		f.fired("read-partial", ft.Persistent)
		return n, ErrInjected
	}
	if f.EOFWithData && f.pos == int64(len(f.Data)) {
		f.X.Stats.Extra["disk_eof_with_data"]++
		return n, io.EOF
	}
	return n, nil
}

// ReadByte implements io.ByteReader.
func (f *File) ReadByte() (byte, error) {
	f.X.Yield("disk.ReadByte:" + f.Name)
	f.ByteReads++
	// byte reads share the read-call counter so that read faults apply
	call := f.Reads
	f.Reads++
	if f.failedR {
		return 0, ErrInjected
	}
	if ft := f.fault("read", call); ft != nil {
		if ft.Persistent {
			f.failedR = true
		}
		f.fired("read-err", ft.Persistent)
		return 0, ErrInjected
	}
	if f.pos >= int64(len(f.Data)) {
		return 0, io.EOF
	}
	b := f.Data[f.pos]
	f.touch(f.pos, f.pos+1)
	f.pos++
	return b, nil
}

// Seek implements io.Seeker.
func (f *File) Seek(off int64, whence int) (int64, error) {
	f.delay("disk.Seek:" + f.Name)
	call := f.Seeks
	f.Seeks++
	if f.X.Sim != nil {
		f.X.Sim.Fold("disk.Seek", uint64(call), uint64(off), uint64(whence))
	}
	if f.failedS {
		return 0, ErrInjected
	}
	if ft := f.fault("seek", call); ft != nil {
		if ft.Persistent {
			f.failedS = true
		}
		f.fired("seek-err", ft.Persistent)
		return 0, ErrInjected
	}
	var np int64
	switch whence {
	case io.SeekStart:
		np = off
	case io.SeekCurrent:
		np = f.pos + off
	case io.SeekEnd:
		np = int64(len(f.Data)) + off
	}
	if np < 0 {
		return 0, errors.New("simdisk: negative position")
	}
	f.pos = np
	return np, nil
}

// ReadAt implements io.ReaderAt.
func (f *File) ReadAt(p []byte, off int64) (int, error) {
	f.X.Yield("disk.ReadAt:" + f.Name)
	if off < 0 {
		return 0, errors.New("simdisk: negative offset")
	}
	if off >= int64(len(f.Data)) {
		return 0, io.EOF
	}
	n := copy(p, f.Data[off:])
	f.touch(off, off+int64(n))
	if n < len(p) {
		return n, io.EOF
	}
	if f.EOFWithData && off+int64(n) == int64(len(f.Data)) {
		// io.ReaderAt: "If the n = len(p) bytes returned by ReadAt are at
		// the end of the input source, ReadAt may return either err == EOF
		// or err == nil."
		f.X.Fault("readat-eof-with-data")
		return n, io.EOF
	}
	return n, nil
}

// Size reports the file length (HasEOF uses it).
func (f *File) Size() int64 { return int64(len(f.Data)) }

// Reader kinds: the library takes different paths depending on which
// interfaces the underlying reader implements.
type (
	readOnly     struct{ f *File }
	readSeek     struct{ f *File }
	readSeekByte struct{ f *File }
	readByteOnly struct{ f *File }
)

func (r readOnly) Read(p []byte) (int, error)             { return r.f.Read(p) }
func (r readSeek) Read(p []byte) (int, error)             { return r.f.Read(p) }
func (r readSeek) Seek(o int64, w int) (int64, error)     { return r.f.Seek(o, w) }
func (r readSeekByte) Read(p []byte) (int, error)         { return r.f.Read(p) }
func (r readSeekByte) Seek(o int64, w int) (int64, error) { return r.f.Seek(o, w) }
func (r readSeekByte) ReadByte() (byte, error)            { return r.f.ReadByte() }
func (r readByteOnly) Read(p []byte) (int, error)         { return r.f.Read(p) }
func (r readByteOnly) ReadByte() (byte, error)            { return r.f.ReadByte() }

// Reader kinds by name.
var ReaderKinds = []string{"read", "read+seek", "read+seek+byte", "read+byte"}

// As returns the file behind the named interface set.
func (f *File) As(kind string) io.Reader {
	switch kind {
	case "read":
		return readOnly{f}
	case "read+seek":
		return readSeek{f}
	case "read+seek+byte":
		return readSeekByte{f}
	case "read+byte":
		return readByteOnly{f}
	}
	panic("simdisk: unknown reader kind " + kind)
}

type writeOnly struct{ f *File }

func (w writeOnly) Write(p []byte) (int, error) { return w.f.Write(p) }

// W returns the file as a plain io.Writer.
func (f *File) W() io.Writer { return writeOnly{f} }

type readerAtSize struct{ f *File }

func (r readerAtSize) ReadAt(p []byte, off int64) (int, error) { return r.f.ReadAt(p, off) }
func (r readerAtSize) Size() int64                             { return r.f.Size() }

// RA returns the file as io.ReaderAt with Size (for bgzf.HasEOF).
func (f *File) RA() io.ReaderAt { return readerAtSize{f} }
