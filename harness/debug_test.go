package harness

import (
	"encoding/json"
	"fmt"
	"os"
	"testing"
)

func TestDebugSig(t *testing.T) {
	path := os.Getenv("HTSV_DEBUG_REPLAY")
	if path == "" {
		t.Skip()
	}
	b, _ := os.ReadFile(path)
	var rp Replay
	json.Unmarshal(b, &rp)
	prop, _ := Lookup(rp.Property)
	ref := func() (uint64, []uint64) {
		c := prop.New()
		json.Unmarshal(rp.Case, c)
		x := NewExec(t, ReplayTape(rp.Tapes), NewStats())
		prop.Exec(x, c)
		var sigs []uint64
		for _, r := range x.Results {
			sigs = append(sigs, r.Sig)
		}
		return x.Sig, sigs
	}
	s0, _ := ref()
	for r := 9; r < 2600; r += 16 {
		tape := NewTape(1, rp.Property, r)
		cc := prop.Gen(tape, "quick", r)
		prop.Exec(NewExec(t, tape, NewStats()), cc)
		if s, sigs := ref(); s != s0 {
			fmt.Printf("changed after run %d: %x -> %x %x\n", r, s0, s, sigs)
			fmt.Printf("%s\n", caseJSON(cc))
			s0 = s
		}
	}
}
