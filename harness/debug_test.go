package harness

import (
	"encoding/json"
	"fmt"
	"os"
	"testing"

	"github.com/biogo/hts/bgzf"
)

func TestDebugHist(t *testing.T) {
	path := os.Getenv("HTSV_DEBUG_REPLAY")
	if path == "" {
		t.Skip()
	}
	b, _ := os.ReadFile(path)
	var rp Replay
	json.Unmarshal(b, &rp)
	var c c02Case
	json.Unmarshal(rp.Case, &c)
	img := c.File.Build()
	flat, _ := NewFlat(img)
	for i, m := range flat.Members {
		fmt.Printf("member %d off %d len %d payload %d\n", i, m.Off, m.Len, len(m.Payload))
	}
	fmt.Println("filelen", len(img))
	for _, caches := range []bool{false, true} {
		x := NewExec(t, ReplayTape(rp.Tapes), NewStats())
		file := &File{X: x, Name: "f", Data: img}
		r, err := bgzf.NewReader(file.As(c.Kind), c.RD)
		if err != nil {
			t.Fatal(err)
		}
		for i, op := range c.Hist {
			switch op.Op {
			case "setcache":
				if caches {
					r.SetCache(mkCache(op.Cache, op.Cap))
				}
			case "read":
				buf := make([]byte, op.N)
				n, err := r.Read(buf)
				fmt.Printf("caches=%v op %d read(%d) = %d,%v chunk %v\n", caches, i, op.N, n, err, r.LastChunk())
			case "seek":
				err := r.Seek(bgzf.Offset{File: flat.Members[op.Block].Off, Block: uint16(op.Off)})
				fmt.Printf("caches=%v op %d seek = %v chunk %v\n", caches, i, err, r.LastChunk())
			}
		}
	}
}
