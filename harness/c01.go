package harness

import (
	"bytes"
	"fmt"
	"io"
	"strings"

	"github.com/biogo/hts/bgzf"
)

// C01 — BGZF write→read round trip.

type c01Case struct {
	W       WCase  `json:"w"`
	RD      int    `json:"rd"`
	Reads   []int  `json:"reads"` // read sizes, -1 = ReadByte; cycled until EOF
	Kind    string `json:"reader_kind"`
	Chunk   int    `json:"chunk"`
	EOFData bool   `json:"eof_with_data"`
	RDelay  int    `json:"read_delay"`
	RProcs  int    `json:"rprocs"`
	Stmt    bool   `json:"stmt_yields,omitempty"` // statement-level yields inside package bgzf
	ZeroRd  bool   `json:"zero_reads,omitempty"`  // the disk's Read sometimes returns (0, nil)
	Blocked bool   `json:"-"`
}

type c01 struct{}

func init() { register(c01{}) }

func (c01) ID() string { return "C01" }
func (c01) Runs(tier string) int {
	if tier == "quick" {
		return 10000
	}
	return 0
}
func (c01) New() interface{} { return &c01Case{} }
func (c01) Rule() string {
	return "seeded write scripts over {Write(len around 0,1,64,4096,BS±1,2BS±1,3BS; zeros/text/random/mixed),Flush,Wait}+Close, level∈[-1,9], wc∈{-1,0,1,2,3,4,8}, then a reader with rd∈{0,1,2,3,4,8} (rd=0 resolves through the simulated GOMAXPROCS), 4 reader interface kinds, short/1-byte/EOF-with-data/(0, nil) reads, read-size scripts mixing Read(n) and ReadByte; every goroutine interleaving decided by the tape. non-trivial: >=2 non-empty members produced AND >=1 preemptive context switch; distinct = (case, schedule signature)"
}

var rdChoices = []int{0, 1, 2, 3, 4, 8}

func genReads(t *Tape) []int {
	n := 1 + t.Draw("work", 5)
	var r []int
	for i := 0; i < n; i++ {
		switch t.Draw("work", 9) {
		case 0:
			r = append(r, -1)
		case 1:
			r = append(r, 0)
		case 2:
			r = append(r, 1)
		case 3:
			r = append(r, 4096)
		case 4:
			r = append(r, bs)
		case 5:
			r = append(r, bs+1)
		case 6:
			r = append(r, 200000)
		default:
			r = append(r, 2+t.Draw("work", 300))
		}
	}
	progress := false
	for _, v := range r {
		if v != 0 {
			progress = true
		}
	}
	if !progress {
		r = append(r, 7) // a script of empty reads alone never reaches the end
	}
	return r
}

func (c01) Gen(t *Tape, tier string, run int) interface{} {
	c := &c01Case{W: genWCase(t, true)}
	c.RD = rdChoices[t.Draw("work", len(rdChoices))]
	c.Reads = genReads(t)
	c.Kind = ReaderKinds[t.Draw("work", len(ReaderKinds))]
	c.Chunk = t.Pick("work", 0, 0, 1, 2)
	if total := len(c.W.Written()); total > 16384 {
		// byte-at-a-time access to the disk costs one scheduling point per
		// byte: keep it for small files
		c.Kind = ReaderKinds[t.Draw("work", 2)]
		c.Chunk = t.Pick("work", 0, 2)
	}
	c.EOFData = t.Bool("work")
	c.RDelay = t.Pick("work", 0, 0, 1, 3)
	c.RProcs = t.Pick("work", 1, 2, 3, 4)
	c.Stmt = t.Chance("work", 1, 4) && len(c.W.Written()) <= 20000
	c.ZeroRd = t.Chance("work", 1, 4)
	return c
}

// readAll drives r with the read-size script until an error and returns
// what was delivered.
func readAll(x *Exec, r *bgzf.Reader, reads []int, limit int) (got []byte, err error, calls int, note string) {
	zero := 0
	for i := 0; ; i++ {
		sz := reads[i%len(reads)]
		var n int
		if sz < 0 {
			var b byte
			b, err = r.ReadByte()
			if err == nil {
				got = append(got, b)
				n = 1
			}
		} else {
			p := make([]byte, sz)
			n, err = r.Read(p)
			if n < 0 || n > sz {
				return got, err, i, fmt.Sprintf("Read(%d) returned n=%d", sz, n)
			}
			got = append(got, p[:n]...)
		}
		calls = i + 1
		x.Fold("r.Read", uint64(n))
		if err != nil {
			return got, err, calls, ""
		}
		if n == 0 && sz != 0 {
			zero++
			if zero > 8 {
				return got, nil, calls, "reader makes no progress: repeated (0, nil)"
			}
		} else if n > 0 {
			zero = 0
		}
		if len(got) > limit {
			return got, nil, calls, "reader returned more data than was written"
		}
		if calls > 2*(limit+10)*(len(reads)+1) {
			return got, nil, calls, "reader does not terminate"
		}
	}
}

func (c01) Exec(x *Exec, ci interface{}) *Verdict {
	c := ci.(*c01Case)
	vd := &Verdict{}
	x.StmtAll = c.Stmt
	want := c.W.Written()
	file := &File{X: x, Name: "f", MaxDelay: c.W.MaxDelay}
	var werr *apiErr
	var ctorErr error
	outOfOrder := completionOrderProbe(x)
	x.Procs = c.W.Procs
	res := x.RunSim("write", c.W.estSteps(), func() {
		bw, err := c.W.newWriter(file)
		if err != nil {
			ctorErr = err
			return
		}
		werr = runWriterScript(x, &c.W, bw, nil)
	})
	if v, inc := StructuralViolation("write", &res); v != nil || inc != "" {
		vd.V, vd.Inconcl = v, inc
		return vd
	}
	if ctorErr != nil {
		vd.V = Mismatch("ctor", "NewWriterLevel(level=%d, wc=%d) = %v", c.W.Level, c.W.WC, ctorErr)
		return vd
	}
	if werr != nil {
		vd.V = Mismatch("write-api-error", "fault-free writer: op %d: %s", werr.Op, werr.Msg)
		return vd
	}
	if outOfOrder() {
		x.Probe("compress_finished_out_of_order")
	}
	img := append([]byte(nil), file.Data...)
	rfile := &File{X: x, Name: "f", Data: img, Chunk: c.Chunk, EOFWithData: c.EOFData, MaxDelay: c.RDelay, ZeroReads: c.ZeroRd}
	var got []byte
	var rerr, openErr, closeErr error
	var note string
	var after []string
	x.Procs = c.RProcs
	res = x.RunSim("read", estReadSteps(len(img), c.Chunk, c.Kind, c.RDelay)*2, func() {
		r, err := bgzf.NewReader(rfile.As(c.Kind), c.RD)
		if err != nil {
			openErr = err
			return
		}
		got, rerr, _, note = readAll(x, r, c.Reads, len(want)+1)
		if rerr == io.EOF {
			// the end is sticky
			p := make([]byte, 5)
			n, e := r.Read(p)
			if n != 0 || e != io.EOF {
				after = append(after, fmt.Sprintf("Read after EOF = %d, %v", n, e))
			}
			if _, e := r.ReadByte(); e != io.EOF {
				after = append(after, fmt.Sprintf("ReadByte after EOF = %v", e))
			}
		}
		closeErr = r.Close()
	})
	if v, inc := StructuralViolation("read", &res); v != nil || inc != "" {
		vd.V, vd.Inconcl = v, inc
		return vd
	}
	switch {
	case openErr != nil:
		vd.V = Mismatch("open", "NewReader on the writer's output = %v", openErr)
	case note != "":
		vd.V = Mismatch("read-shape", "%s", note)
	case rerr != io.EOF:
		vd.V = Mismatch("read-error", "reading back ended with %v after %d of %d bytes", rerr, len(got), len(want))
	case !bytes.Equal(got, want):
		vd.V = Mismatch("data", "read back %d bytes, wrote %d; first difference at %d", len(got), len(want), firstDiff(got, want))
	case len(after) > 0:
		vd.V = Mismatch("eof-not-sticky", "%s", strings.Join(after, "; "))
	case closeErr != nil:
		vd.V = Mismatch("close", "Reader.Close after clean EOF = %v", closeErr)
	}
	if vd.V != nil {
		return vd
	}
	// non-triviality and probes
	ms, _, _ := ParseBGZF(img)
	nonEmpty := 0
	for _, m := range ms {
		if len(m.Payload) > 0 {
			nonEmpty++
		}
		if len(m.Payload) == bs {
			x.Probe("member_with_full_payload")
		}
	}
	off := 0
	for _, op := range c.W.Ops {
		if op.Op == "write" {
			if op.P.Len >= 2*bs {
				x.Probe("payload_spans_3_blocks")
			}
			if op.P.Kind == "random" && op.P.Len >= bs {
				x.Probe("incompressible_block")
			}
			off += op.P.Len
			if op.P.Len > 0 && off%bs == 0 {
				x.Probe("payload_exactly_fills_block")
			}
		}
	}
	vd.NonTrivial = nonEmpty >= 2 && x.Preempt >= 1
	vd.Sample = map[string]interface{}{"case": c, "members": len(ms), "bytes": len(want), "steps": x.Steps, "preemptions": x.Preempt}
	return vd
}

func firstDiff(a, b []byte) int {
	n := len(a)
	if len(b) < n {
		n = len(b)
	}
	for i := 0; i < n; i++ {
		if a[i] != b[i] {
			return i
		}
	}
	return n
}

func (c01) Shrinks(ci interface{}) []interface{} {
	c := ci.(*c01Case)
	var out []interface{}
	for _, w := range shrinkWCase(c.W) {
		n := *c
		n.W = w
		out = append(out, &n)
	}
	if c.RD != 1 {
		n := *c
		n.RD = 1
		out = append(out, &n)
	}
	if c.RD > 2 {
		n := *c
		n.RD = 2
		out = append(out, &n)
	}
	if len(c.Reads) > 1 || c.Reads[0] != 200000 {
		n := *c
		n.Reads = []int{200000}
		out = append(out, &n)
	}
	if c.Kind != "read+seek" {
		n := *c
		n.Kind = "read+seek"
		out = append(out, &n)
	}
	if c.Chunk != 0 || c.EOFData || c.RDelay != 0 || c.ZeroRd {
		n := *c
		n.Chunk, n.EOFData, n.RDelay, n.ZeroRd = 0, false, 0, false
		out = append(out, &n)
	}
	return out
}

// estReadSteps estimates the scheduling points of reading an image once.
func estReadSteps(imgLen, chunk int, kind string, delay int) int {
	calls := imgLen/2048 + 20
	if chunk == 1 || strings.Contains(kind, "byte") {
		calls = imgLen + 20
	}
	return 200 + calls*(2+delay) + (imgLen/20000+4)*80
}
