package harness

import (
	"encoding/json"
	"fmt"
	"sort"
)

// Property is one checkable property.
type Property interface {
	ID() string
	// Runs is the number of runs for a tier (0: until the time budget ends).
	Runs(tier string) int
	// Gen produces the case for run number run. It may draw from the tape's
	// work stream only.
	Gen(t *Tape, tier string, run int) interface{}
	// New returns an empty case to unmarshal a replay file into.
	New() interface{}
	// Exec executes a case under the tape and judges it.
	Exec(x *Exec, c interface{}) *Verdict
	// Shrinks proposes simpler variants of a failing case.
	Shrinks(c interface{}) []interface{}
	// Rule describes generation and the non-triviality rule (for evidence).
	Rule() string
}

var registry = map[string]Property{}

func register(p Property) { registry[p.ID()] = p }

// Lookup returns the property with the given id.
func Lookup(id string) (Property, error) {
	p, ok := registry[id]
	if !ok {
		var ids []string
		for k := range registry {
			ids = append(ids, k)
		}
		sort.Strings(ids)
		return nil, fmt.Errorf("unknown property %q (have %v)", id, ids)
	}
	return p, nil
}

func caseJSON(c interface{}) []byte {
	b, err := json.Marshal(c)
	if err != nil {
		panic(err)
	}
	return b
}

func cloneCase(p Property, c interface{}) interface{} {
	n := p.New()
	if err := json.Unmarshal(caseJSON(c), n); err != nil {
		panic(err)
	}
	return n
}

// Replay is the replay file format.
type Replay struct {
	Property string              `json:"property"`
	Tier     string              `json:"tier"`
	Seed     uint64              `json:"seed"`
	Run      int                 `json:"run"`
	Case     json.RawMessage     `json:"case"`
	Tapes    map[string][]uint32 `json:"tapes"`
	Kind     string              `json:"kind"`
	Class    string              `json:"class"`
	Msg      string              `json:"msg"`
	Sig      uint64              `json:"run_signature"`
	Shrunk   int                 `json:"shrink_executions"`
	Original json.RawMessage     `json:"original_case,omitempty"`
	Tail     interface{}         `json:"last_events,omitempty"`
	Stuck    interface{}         `json:"stuck,omitempty"`
	// Regen: the case is not stored; it is regenerated from (seed, run) and
	// executed in generation mode (used for runs that crash the process).
	Regen bool `json:"regen,omitempty"`
}

// KnownFinding is one entry of /verif/known_findings.json.
type KnownFinding struct {
	ID       string   `json:"id"`
	Property string   `json:"property"`
	Status   string   `json:"status"` // open | fixed
	Kind     string   `json:"kind"`
	Contains []string `json:"class_contains"` // all must occur in the violation class
	What     string   `json:"what"`
	Commit   string   `json:"commit,omitempty"`
}

func (k *KnownFinding) matches(prop string, v *Violation) bool {
	if k.Status != "open" || k.Property != prop || (k.Kind != "" && k.Kind != v.Kind) {
		return false
	}
	for _, c := range k.Contains {
		if !containsStr(v.Class, c) {
			return false
		}
	}
	return true
}

func containsStr(s, sub string) bool {
	return len(sub) == 0 || (len(s) >= len(sub) && indexStr(s, sub) >= 0)
}

func indexStr(s, sub string) int {
	for i := 0; i+len(sub) <= len(s); i++ {
		if s[i:i+len(sub)] == sub {
			return i
		}
	}
	return -1
}
