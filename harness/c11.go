package harness

import (
	"bytes"
	"encoding/binary"
	"fmt"
	"hash/crc32"
	"io"
	"os"
	"sort"
	"strings"
	"sync"

	"github.com/biogo/hts/bam"
	"github.com/biogo/hts/bgzf"
	"github.com/biogo/hts/cram"
	"github.com/biogo/hts/csi"
	"github.com/biogo/hts/fai"
	"github.com/biogo/hts/sam"
	"github.com/biogo/hts/tabix"
)

// C11 — decoders are total (scope: valid encoding + storage/transport faults).

// StoreFault is one stored-state fault applied to an image before reading.
type StoreFault struct {
	Kind string `json:"kind"` // bitflip, subst, truncate, zero-sector, misdirect, dup-tail
	A    int    `json:"a"`    // position / length (reduced modulo the image size)
	B    int    `json:"b"`    // bit, value or second position
}

type c11Case struct {
	Target  string       `json:"target"`
	GenSeed uint32       `json:"gen_seed"`
	Faults  []StoreFault `json:"faults"`
	RD      int          `json:"rd"`
	Chunk   int          `json:"chunk"`
	Kind    string       `json:"reader_kind"`
	ReadErr *Fault       `json:"read_err,omitempty"`
}

type c11 struct{}

func init() { register(c11{}) }

func (c11) ID() string { return "C11" }
func (c11) Runs(tier string) int {
	if tier == "quick" {
		return len(c11AuxEdits()) + len(c11IdxEdits(tier)) + c11SamFields*len(c11SamVals) + 7000
	}
	return 0
}
func (c11) New() interface{} { return &c11Case{} }
func (c11) CrashProne() bool { return true }
func (c11) Rule() string {
	return "targets: bgzf, bam, sam (text: reader, record/aux/CIGAR/header parsers), bai, csi, tabix, fai, fasta (NewIndex + File.SeqRange), cram (definition, containers, blocks, Value); a valid encoding (independent encoders for BGZF/BAM/CRAM, the library's own writers for SAM text and the indexes) is stored on a simulated file, hit by 1..4 stored-state faults {bit flip, byte substitution, truncation, zeroed 512-byte sector, misdirected sector, duplicated tail} and consumed as a stream with short reads and optionally a read error, BGZF/BAM with rd>1 under tape-chosen schedules. Oracle: no panic in any goroutine, no deadlock/livelock, no fatal runtime error or 30 s stall of the worker; every value returned without error is passed to the library's accessors, formatters, validators (Header.Validate), writers and index builders (records in coordinate order, a third of the time piled up around a 16 KiB tile boundary) and queried (index Chunks incl. empty intervals), which must not panic or hang either. Enumerations run before the seeded cases: 960 single structural edits of one BAM record's auxiliary area, and every 4-byte window (quick: every window of the first 200 bytes and the aligned ones up to byte 600; thorough: all) of one BAI, one CSI, one tabix and one CRAM image and one uncompressed BAM stream (header and records, wrapped into valid BGZF members afterwards) overwritten with each of 6 boundary values; and every column of a SAM record line (plus an appended field) replaced by each of 66 boundary spellings of numbers, names, CIGARs, sequences and aux fields. Arbitrary byte strings far from a valid encoding are NOT explored. non-trivial: the decoder read at least one faulted byte and the outcome differs from the fault-free outcome; distinct = (case, schedule signature)"
}

// "-inner" targets apply the faults to the payload BEFORE it is wrapped in a
// checksummed container (BGZF members, CRAM blocks): corruption that happened
// upstream of the checksum, which is the only way a fault reaches the BAM
// record parser or the CRAM header-block parser at all.
var c11Targets = []string{"bgzf", "bam", "bam-inner", "bam-inner", "sam", "sam", "bai", "csi", "tabix", "fai", "fasta", "cram", "cram-inner"}

// c11AuxRecs is the fixed record list of the enumerated aux-edit cases: every
// aux type once, B arrays of 8, 3 and 0 elements.
func c11AuxRecs() []RecSpec {
	var aux []AuxSpec
	for i, ty := range []string{"A", "c", "C", "s", "S", "i", "I", "f", "Z", "H"} {
		aux = append(aux, AuxSpec{Tag: string([]byte{'X', byte('a' + i)}), Typ: ty, N: 5, Seed: uint32(i + 1)})
	}
	aux = append(aux, AuxSpec{Tag: "XZ", Typ: "c", Seed: 31}, AuxSpec{Tag: "YH", Typ: "C", Seed: 32}) // tags whose second letter is a type letter
	aux = append(aux, AuxSpec{Tag: "Ba", Typ: "B", Sub: "c", N: 8, Seed: 21}, AuxSpec{Tag: "Bb", Typ: "B", Sub: "S", N: 3, Seed: 22}, AuxSpec{Tag: "Bc", Typ: "B", Sub: "f", N: 0, Seed: 23})
	var recs []RecSpec
	for i := 0; i < len(aux); i++ {
		// record i ends with aux field i, so every field is also seen in last position
		rot := append(append([]AuxSpec(nil), aux[i+1:]...), aux[:i+1]...)
		recs = append(recs, RecSpec{Name: fmt.Sprintf("e%d", i), RefID: -1, NextRef: -1, Pos: -1, NextPos: -1, SeqLen: 4, HasQual: true, Seed: uint32(100 + i), Aux: rot})
	}
	return recs
}

const c11TypeLetters = "AcCsSiIfZHB\x00"

// c11AuxEdits enumerates (record, aux field, edit) triples.
func c11AuxEdits() [][3]int {
	var out [][3]int
	recs := c11AuxRecs()
	for r := range recs {
		k := len(recs[r].Aux) - 1 // the field in last position, plus the first one
		for _, kk := range []int{0, k} {
			for e := 0; e < 12+12+7+3; e++ {
				out = append(out, [3]int{r, kk, e})
			}
		}
	}
	return out
}

// Enumerated index edits: every 4-byte window of a fixed BAI, CSI and tabix
// image (the seeded int32-edit fault only samples aligned positions) is
// overwritten with every value of c11IdxVals. The quick tier takes every
// window of the first 200 bytes (header, first reference) and the aligned
// ones up to byte 600; the thorough tier takes every window of the image.
const c11IdxSeed = 3

var c11IdxVals = []uint32{0xffffffff, 0x80000000, 0x7fffffff, 0, 0x00010000, 0x00000100}

type c11IdxEdit struct {
	target string
	pos, v int
}

var (
	c11IdxMu    sync.Mutex
	c11IdxCases = map[string][]c11IdxEdit{}
)

func c11IdxEdits(tier string) []c11IdxEdit {
	c11IdxMu.Lock()
	defer c11IdxMu.Unlock()
	if l, ok := c11IdxCases[tier]; ok {
		return l
	}
	l := []c11IdxEdit{}
	for _, tg := range []string{"bai", "csi", "tabix", "bam-inner", "cram"} {
		var n int
		switch tg {
		case "bam-inner":
			n = len(bamStream(c11IdxSeed, nil))
		default:
			n = len(genValid(tg, c11IdxSeed))
		}
		for p := 0; p+4 <= n; p++ {
			if tier == "quick" && (p >= 600 || p >= 200 && p%4 != 0) {
				continue
			}
			for v := range c11IdxVals {
				l = append(l, c11IdxEdit{tg, p, v})
			}
		}
	}
	c11IdxCases[tier] = l
	return l
}

// c11SamVals are the replacement values of the enumerated SAM field edits:
// every one is tried in every column of a record line (and as an extra
// trailing aux field), so numeric, name, CIGAR, sequence and aux parsers all
// see each other's boundary syntax.
var c11SamVals = []string{
	"", "*", "=", "0", "-1", "+5", " 5", "1e3", "0x10", "255", "256", "65535", "65536",
	"2147483647", "2147483648", "-2147483648", "-2147483649", "4294967295", "4294967296",
	"536870911", "536870912", "9223372036854775807", "9223372036854775808", "99999999999999999999",
	"0M", "1", "M", "5Z", "-1M", "268435455M", "268435456M", "4294967296M", "3M2", "1M1B5M", "10B",
	"acgtn", "N.", "ACGT=", "\x7f", " ",
	"XX:i:", "XX:i:99999999999", "XX:i:-99999999999", "XX:B:", "XX:B:c", "XX:B:c,", "XX:B:c,300", "XX:B:C,-1", "XX:B:f,1e400", "XX:B:Z,1", "XX:B:i,1,,2",
	"XX:Z", "XX:", "X:i:1", "XXX:i:1", "XX:H:1", "XX:H:GG", "XX:A:", "XX:A:ab", "XX:f:", "XX:f:nan", "XX:f:1e400", "XX:Q:1", "XX::1", ":::", "XX:i:1:2",
}

const c11SamFields = 13 // 11 mandatory columns, the first aux field, and an appended field

// samFieldEdit replaces column field of the first record line of a SAM text.
func samFieldEdit(img []byte, field, val int) []byte {
	v := c11SamVals[val%len(c11SamVals)]
	lines := strings.SplitAfter(string(img), "\n")
	for i, l := range lines {
		if l == "" || l[0] == '@' {
			continue
		}
		nl := strings.HasSuffix(l, "\n")
		cols := strings.Split(strings.TrimSuffix(l, "\n"), "\t")
		switch {
		case field < len(cols) && field < c11SamFields-1:
			cols[field] = v
		default:
			cols = append(cols, v)
		}
		lines[i] = strings.Join(cols, "\t")
		if nl {
			lines[i] += "\n"
		}
		break
	}
	return []byte(strings.Join(lines, ""))
}

func (c11) Gen(t *Tape, tier string, run int) interface{} {
	if edits := c11AuxEdits(); run < len(edits) {
		e := edits[run]
		return &c11Case{Target: "bam-aux-enum", GenSeed: 1, Faults: []StoreFault{{Kind: "aux-edit", A: e[0]*64 + e[1], B: e[2]}}, RD: 1, Kind: "read+seek"}
	}
	if k := run - len(c11AuxEdits()); k >= 0 && k < len(c11IdxEdits(tier)) {
		e := c11IdxEdits(tier)[k]
		return &c11Case{Target: e.target, GenSeed: c11IdxSeed, Faults: []StoreFault{{Kind: "int32-at", A: e.pos, B: e.v}}, RD: 1, Kind: "read+seek"}
	}
	if k := run - len(c11AuxEdits()) - len(c11IdxEdits(tier)); k >= 0 && k < c11SamFields*len(c11SamVals) {
		return &c11Case{Target: "sam", GenSeed: c11IdxSeed, Faults: []StoreFault{{Kind: "sam-field", A: k / len(c11SamVals), B: k % len(c11SamVals)}}, RD: 1, Kind: "read"}
	}
	targets := c11Targets
	if only := os.Getenv("HTSV_C11_ONLY"); only != "" {
		targets = strings.Split(only, ",") // triage aid
	}
	c := &c11Case{Target: targets[t.Draw("work", len(targets))], GenSeed: uint32(t.Draw("work", 1<<30)), RD: t.Pick("work", 1, 2, 4), Chunk: t.Pick("work", 0, 0, 2, 1), Kind: ReaderKinds[t.Draw("work", 2)]}
	kinds := []string{"bitflip", "bitflip", "bitflip", "subst", "subst", "truncate", "zero-sector", "misdirect", "dup-tail", "drop-bytes", "dup-bytes", "set-delim", "ins-delim", "rec-trim", "rec-trim", "zero-number", "aux-retype"}
	// structure-aware weighting: text formats get more delimiter and number
	// edits, binary index formats more length-field edits
	switch c.Target {
	case "sam", "fai", "fasta":
		kinds = []string{"bitflip", "subst", "truncate", "drop-bytes", "dup-bytes", "set-delim", "ins-delim", "zero-number", "zero-number", "zero-number", "dup-tail", "big-number", "big-number"}
	case "bai", "csi", "tabix":
		kinds = append(kinds, "int32-edit", "int32-edit", "int32-edit")
	case "bam-inner":
		kinds = append(kinds, "aux-retype", "aux-retype", "aux-retype", "rec-trim", "set-delim")
	}
	n := 1 + t.Draw("work", 4)
	if t.Chance("work", 1, 2) {
		n = 1
	}
	for i := 0; i < n; i++ {
		c.Faults = append(c.Faults, StoreFault{Kind: kinds[t.Draw("work", len(kinds))], A: t.Draw("work", 1<<20), B: t.Draw("work", 1<<16)})
	}
	if t.Chance("work", 1, 8) {
		c.ReadErr = &Fault{Op: "read", At: t.Draw("work", 6), Kind: []string{"err", "partial"}[t.Draw("work", 2)], Persistent: t.Bool("work")}
	}
	return c
}

// applyFaults returns the faulted image and which offsets differ.
func applyFaults(img []byte, fs []StoreFault) ([]byte, []bool) {
	out := append([]byte(nil), img...)
	for _, f := range fs {
		if len(out) == 0 {
			break
		}
		a := f.A % len(out)
		switch f.Kind {
		case "bitflip":
			out[a] ^= 1 << uint(f.B%8)
		case "subst":
			out[a] = byte(f.B)
		case "truncate":
			out = out[:a]
		case "zero-sector":
			s := a &^ 511
			for i := s; i < s+512 && i < len(out); i++ {
				out[i] = 0
			}
		case "misdirect":
			s, d := a&^511, (f.B*512)%len(out)&^511
			for i := 0; i < 512 && s+i < len(out) && d+i < len(out); i++ {
				out[d+i] = out[s+i]
			}
		case "drop-bytes": // bytes lost in transport
			n := 1 + f.B%4
			if a+n > len(out) {
				n = len(out) - a
			}
			out = append(out[:a], out[a+n:]...)
		case "dup-bytes": // bytes delivered twice
			n := 1 + f.B%4
			if a+n > len(out) {
				n = len(out) - a
			}
			dup := append([]byte(nil), out[a:a+n]...)
			out = append(out[:a+n], append(dup, out[a+n:]...)...)
		case "set-delim": // a byte turned into one of the formats' delimiters
			out[a] = []byte{'\t', '\n', ':', 0, ',', '@', '*'}[f.B%7]
		case "int32-edit": // a length-field edit for binary formats
			p := a &^ 3
			if p+4 <= len(out) {
				v := []uint32{0xffffffff, 0, 0x7fffffff, 0x80000000, 1}[f.B%5]
				binary.LittleEndian.PutUint32(out[p:], v)
			}
		case "int32-at": // enumerated: any 4-byte window, see c11IdxEdits
			if a+4 <= len(out) {
				binary.LittleEndian.PutUint32(out[a:], c11IdxVals[f.B%len(c11IdxVals)])
			}
		case "sam-field": // enumerated: field A of the first record line becomes value B
			out = samFieldEdit(out, f.A, f.B)
		case "aux-edit":
			// enumerated structural edit, handled by the bam-aux-enum target
		case "aux-retype":
			// structural, BAM streams only (see bamStream); a bit flip elsewhere
			out[a] ^= 1 << uint(f.B%8)
		case "big-number":
			// the decimal number at or after position a becomes a value near
			// the limits of 32 and 64 bit arithmetic
			i := a
			for i < len(out) && (out[i] < '0' || out[i] > '9') {
				i++
			}
			j := i
			for j < len(out) && out[j] >= '0' && out[j] <= '9' {
				j++
			}
			if j > i {
				v := []string{"4611686018427387904", "9223372036854775807", "2147483648", "4294967296", "1152921504606846976"}[f.B%5]
				out = append(out[:i], append([]byte(v), out[j:]...)...)
			}
		case "zero-number":
			// a length-field edit for text formats: the decimal number at or
			// after position a becomes 0
			i := a
			for i < len(out) && (out[i] < '0' || out[i] > '9') {
				i++
			}
			j := i
			for j < len(out) && out[j] >= '0' && out[j] <= '9' {
				j++
			}
			if j > i {
				out = append(out[:i], append([]byte{'0'}, out[j:]...)...)
			}
		case "ins-delim": // a delimiter byte inserted
			d := []byte{'\t', '\n', ':', 0, ',', '@', '*'}[f.B%7]
			out = append(out[:a], append([]byte{d}, out[a:]...)...)
		case "rec-trim":
			// BAM streams only: see trimRecord; elsewhere it cuts 1..8 bytes off the end
			n := 1 + f.B%8
			if n > len(out) {
				n = len(out)
			}
			out = out[:len(out)-n]
		case "dup-tail":
			n := 1 + f.B%512
			if n > len(out) {
				n = len(out)
			}
			out = append(out, out[len(out)-n:]...)
		}
	}
	diff := make([]bool, len(out))
	for i := range out {
		diff[i] = i >= len(img) || out[i] != img[i]
	}
	return out, diff
}

// ---- generators of valid encodings -------------------------------------------

func c11Header(t *Tape) HdrSpec {
	h := genHdr(t)
	if len(h.Refs) == 0 {
		h.Refs = []RefSpec{{Name: "chr1", Len: 100000}}
	}
	return h
}

func c11Records(t *Tape, h HdrSpec, n int) []RecSpec {
	var rs []RecSpec
	for i := 0; i < n; i++ {
		r := genRec(t, len(h.Refs), 0, i)
		r.Flags &^= 0x4 // mapped unless unplaced
		rs = append(rs, r)
	}
	if t.Chance("work", 1, 3) {
		// reads piled up around a 16 KiB boundary of the first reference
		// (the tile width of the BAI linear index)
		base := 16384 * (1 + t.Draw("work", 4))
		for i := range rs {
			if p := base - 200 + t.Draw("work", 300); p < h.Refs[0].Len {
				rs[i].RefID, rs[i].Pos = 0, p
			}
		}
	}
	if t.Bool("work") {
		// coordinate order, unplaced last: what an index builder is fed
		sort.SliceStable(rs, func(i, j int) bool {
			a, b := rs[i], rs[j]
			if (a.RefID < 0) != (b.RefID < 0) {
				return b.RefID < 0
			}
			if a.RefID != b.RefID {
				return a.RefID < b.RefID
			}
			return a.Pos < b.Pos
		})
	}
	return rs
}

func genValid(target string, seed uint32) []byte {
	tapeName := target
	if target == "fasta-for-fai" {
		tapeName = "fai" // the FASTA file the fai target's index was built from
	}
	t := NewTape(uint64(seed), "C11-gen-"+tapeName, 0)
	switch target {
	case "bgzf":
		fs := genFileSpec(t, false)
		return fs.Build()
	case "bam":
		h := c11Header(t)
		stream := h.EncodeBAMHeader()
		for _, r := range c11Records(t, h, 1+t.Draw("work", 8)) {
			stream = append(stream, r.EncodeBAM()...)
		}
		var img []byte
		for len(stream) > 0 {
			n := 1 + t.Draw("work", 1500)
			if n > len(stream) {
				n = len(stream)
			}
			img = append(img, EncodeMember(stream[:n], MemberOpts{Level: 1, OS: 0xff})...)
			stream = stream[n:]
		}
		return append(img, SpecEOF...)
	case "sam":
		h := c11Header(t)
		sh, err := h.SamHeader()
		if err != nil {
			panic(err)
		}
		var buf bytes.Buffer
		// the library's reader cannot parse the string form of FLAG that its
		// writer offers (every record then fails at column 2): mostly the
		// numeric forms, and always decimal for the enumerated field edits
		flagFmt := t.Pick("work", sam.FlagDecimal, sam.FlagHex, sam.FlagString, sam.FlagDecimal, sam.FlagHex, sam.FlagDecimal)
		if seed == c11IdxSeed {
			flagFmt = sam.FlagDecimal
		}
		w, err := sam.NewWriter(&buf, sh, flagFmt)
		if err != nil {
			panic(err)
		}
		for _, r := range c11Records(t, h, 1+t.Draw("work", 8)) {
			r.NCigar = 0 // keep CIGAR consistent with the sequence for text
			rec, err := r.SamRecord(sh)
			if err != nil {
				panic(err)
			}
			if rec.Seq.Length > 0 {
				rec.Cigar = sam.Cigar{sam.NewCigarOp(sam.CigarMatch, rec.Seq.Length)}
			}
			if err := w.Write(rec); err != nil {
				panic(err)
			}
		}
		return buf.Bytes()
	case "bai", "csi", "tabix":
		nref := 1 + t.Draw("work", 3)
		type irec struct{ ref, start, end int }
		var recs []irec
		for r := 0; r < nref; r++ {
			pos := 0
			for i, n := 0, t.Draw("work", 6); i < n; i++ {
				pos += t.Draw("work", 1<<t.Pick("work", 10, 16, 22))
				l := 1 + t.Draw("work", 1<<t.Pick("work", 5, 14, 18))
				if pos+l >= 1<<29 {
					break
				}
				recs = append(recs, irec{r, pos, pos + l})
			}
		}
		off := int64(100)
		chunk := func() bgzf.Chunk {
			b := bgzf.Offset{File: off, Block: uint16(t.Draw("work", 60000))}
			off += int64(1 + t.Draw("work", 3000))
			return bgzf.Chunk{Begin: b, End: bgzf.Offset{File: off, Block: uint16(t.Draw("work", 60000))}}
		}
		var buf bytes.Buffer
		switch target {
		case "bai":
			refs := make([]*sam.Reference, nref)
			for i := range refs {
				refs[i], _ = sam.NewReference(fmt.Sprintf("r%d", i), "", "", 1<<29-1, nil, nil)
			}
			h, err := sam.NewHeader(nil, refs)
			if err != nil {
				panic(err)
			}
			var idx bam.Index
			for _, r := range recs {
				rec := &sam.Record{Name: "x", Ref: h.Refs()[r.ref], Pos: r.start, Cigar: sam.Cigar{sam.NewCigarOp(sam.CigarMatch, r.end-r.start)}}
				if err := safely(func() error { return idx.Add(rec, chunk()) }); err != nil {
					continue
				}
			}
			if err := bam.WriteIndex(&buf, &idx); err != nil {
				panic(err)
			}
		case "csi":
			idx := csi.New(0, 0)
			if t.Bool("work") {
				idx.Version = 1
			}
			idx.Auxilliary = make([]byte, t.Draw("work", 10))
			for _, r := range recs {
				if err := safely(func() error { return idx.Add(csiRec{r.ref, r.start, r.end}, chunk(), true, true) }); err != nil {
					continue
				}
			}
			if err := csi.WriteTo(&buf, idx); err != nil {
				panic(err)
			}
		default:
			idx := tabix.New()
			idx.Format, idx.NameColumn, idx.BeginColumn, idx.EndColumn, idx.MetaChar, idx.Skip = 0, 1, 4, 5, '#', 0
			last := -1
			for _, r := range recs {
				if r.ref != last && r.ref != last+1 {
					continue
				}
				last = r.ref
				if err := safely(func() error { return idx.Add(tbxRec{fmt.Sprintf("r%d", r.ref), r.start, r.end}, chunk(), true, true) }); err != nil {
					break
				}
			}
			if err := tabix.WriteTo(&buf, idx); err != nil {
				panic(err)
			}
		}
		return buf.Bytes()
	case "fasta", "fai", "fasta-for-fai":
		var fa bytes.Buffer
		for i, n := 0, 1+t.Draw("work", 4); i < n; i++ {
			fmt.Fprintf(&fa, ">seq%d some description\n", i)
			l := 1 + t.Draw("work", 300)
			w := 1 + t.Draw("work", 70)
			for p := 0; p < l; p += w {
				e := p + w
				if e > l {
					e = l
				}
				fa.WriteString(strings.Repeat("ACGT", 100)[p%4 : p%4+e-p])
				fa.WriteString("\n")
			}
		}
		if target == "fasta" || target == "fasta-for-fai" {
			return fa.Bytes()
		}
		idx, err := fai.NewIndex(bytes.NewReader(fa.Bytes()))
		if err != nil {
			panic(err)
		}
		var buf bytes.Buffer
		if err := fai.WriteTo(&buf, idx); err != nil {
			panic(err)
		}
		return buf.Bytes()
	case "cram":
		return genCRAM(t)
	}
	panic("c11: unknown target " + target)
}

// safely runs an index builder call while generating VALID inputs: Add may
// panic on some sorted inputs (that is property C04's subject, not C11's);
// such records are simply left out of the generated index.
func safely(f func() error) (err error) {
	defer func() {
		if r := recover(); r != nil {
			err = fmt.Errorf("panic: %v", r)
		}
	}()
	return f()
}

type csiRec struct{ ref, start, end int }

func (r csiRec) RefID() int { return r.ref }
func (r csiRec) Start() int { return r.start }
func (r csiRec) End() int   { return r.end }

type tbxRec struct {
	name       string
	start, end int
}

func (r tbxRec) RefName() string { return r.name }
func (r tbxRec) Start() int      { return r.start }
func (r tbxRec) End() int        { return r.end }

// itf8 encodes per the CRAM specification, section 2.3.
func itf8(v int32) []byte {
	u := uint32(v)
	switch {
	case u < 1<<7:
		return []byte{byte(u)}
	case u < 1<<14:
		return []byte{0x80 | byte(u>>8), byte(u)}
	case u < 1<<21:
		return []byte{0xc0 | byte(u>>16), byte(u >> 8), byte(u)}
	case u < 1<<28:
		return []byte{0xe0 | byte(u>>24), byte(u >> 16), byte(u >> 8), byte(u)}
	}
	return []byte{0xf0 | byte(u>>28), byte(u >> 20), byte(u >> 12), byte(u >> 4), byte(u & 0xf)}
}

func ltf8small(v int64) []byte { return itf8(int32(v)) } // values < 2^28 share the ITF-8 layout

func cramBlock(method, typ byte, contentID int32, data []byte) []byte {
	var b []byte
	b = append(b, method, typ)
	b = append(b, itf8(contentID)...)
	b = append(b, itf8(int32(len(data)))...)
	b = append(b, itf8(int32(len(data)))...)
	b = append(b, data...)
	return binary.LittleEndian.AppendUint32(b, crc32.ChecksumIEEE(b))
}

func cramContainer(refID, start, span, nrec int32, blocks [][]byte) []byte {
	var body []byte
	for _, bl := range blocks {
		body = append(body, bl...)
	}
	var h []byte
	h = binary.LittleEndian.AppendUint32(h, uint32(len(body)))
	h = append(h, itf8(refID)...)
	h = append(h, itf8(start)...)
	h = append(h, itf8(span)...)
	h = append(h, itf8(nrec)...)
	h = append(h, ltf8small(0)...)
	h = append(h, ltf8small(0)...)
	h = append(h, itf8(int32(len(blocks)))...)
	h = append(h, itf8(0)...) // no landmarks
	h = binary.LittleEndian.AppendUint32(h, crc32.ChecksumIEEE(h))
	return append(h, body...)
}

func genCRAM(t *Tape) []byte {
	var img []byte
	img = append(img, 'C', 'R', 'A', 'M', 3, 0)
	img = append(img, make([]byte, 20)...)
	ch := c11Header(t)
	text := ch.Text()
	hd := binary.LittleEndian.AppendUint32(nil, uint32(len(text)))
	hd = append(hd, text...)
	img = append(img, cramContainer(0, 0, 0, 0, [][]byte{cramBlock(0, 0, 0, hd)})...)
	for i, n := 0, t.Draw("work", 3); i < n; i++ {
		var blocks [][]byte
		for j, m := 0, 1+t.Draw("work", 3); j < m; j++ {
			blocks = append(blocks, cramBlock(0, byte(t.Pick("work", 1, 2, 4, 5)), int32(j), make([]byte, t.Draw("work", 60))))
		}
		img = append(img, cramContainer(int32(t.Draw("work", 3)), int32(t.Draw("work", 1000)), 100, 5, blocks)...)
	}
	// EOF container, CRAM 3.0 specification section 9
	img = append(img, 0x0f, 0x00, 0x00, 0x00, 0xff, 0xff, 0xff, 0xff, 0x0f, 0xe0, 0x45, 0x4f, 0x46, 0x00, 0x00, 0x00, 0x00, 0x01, 0x00,
		0x05, 0xbd, 0xd9, 0x4f, 0x00, 0x01, 0x00, 0x06, 0x06, 0x01, 0x00, 0x01, 0x00, 0x01, 0x00, 0xee, 0x63, 0x01, 0x4b)
	return img
}

// ---- decoders ---------------------------------------------------------------

// exerciseRecord passes a decoded record to accessors, formatters and writers.
func exerciseRecord(rec *sam.Record, h *sam.Header, bw *bam.Writer, idx *bam.Index) {
	_ = rec.String()
	rec.MarshalSAM(sam.FlagDecimal)
	rec.MarshalText()
	_, _, _, _ = rec.Bin(), rec.End(), rec.Len(), rec.Strand()
	_ = rec.Start()
	rec.Cigar.IsValid(rec.Seq.Length)
	rec.Cigar.Lengths()
	_ = rec.Cigar.String()
	_ = rec.Seq.Expand()
	for _, a := range rec.AuxFields {
		_ = a.String()
		_ = a.Tag()
		_ = a.Type()
		_ = a.Value()
		_ = a.Kind()
	}
	rec.Tag([]byte("NM"))
	_ = sam.IsValidRecord(rec)
	if h != nil {
		h.Validate(rec)
	}
	if bw != nil {
		bw.Write(rec)
	}
	if idx != nil {
		idx.Add(rec, bgzf.Chunk{Begin: bgzf.Offset{File: 10}, End: bgzf.Offset{File: 20}})
	}
}

func exerciseHeader(h *sam.Header) {
	h.MarshalText()
	h.MarshalBinary()
	c := h.Clone()
	for _, r := range c.Refs() {
		_, _, _ = r.Name(), r.Len(), r.String()
	}
	for _, g := range c.RGs() {
		_ = g.String()
	}
	for _, p := range c.Progs() {
		_ = p.String()
	}
}

func decode(x *Exec, c *c11Case, file *File) (outcome string) {
	rdr := file.As(c.Kind)
	target := c.Target
	if i := strings.Index(target, "-inner"); i > 0 {
		target = target[:i]
	}
	if target == "bam-aux-enum" {
		target = "bam"
	}
	switch target {
	case "bgzf":
		bgzf.HasEOF(file.RA())
		r, err := bgzf.NewReader(rdr, c.RD)
		if err != nil {
			return "open:" + errKind(err)
		}
		defer r.Close()
		n, err := io.Copy(io.Discard, r)
		r.LastChunk()
		return fmt.Sprintf("read %d:%s", n, errKind(err))
	case "bam":
		br, err := bam.NewReader(rdr, c.RD)
		if err != nil {
			return "open:" + errKind(err)
		}
		defer br.Close()
		h := br.Header()
		exerciseHeader(h)
		var out bytes.Buffer
		bw, _ := bam.NewWriter(&out, h, 1)
		var idx bam.Index
		n := 0
		for {
			rec, err := br.Read()
			if err != nil {
				if bw != nil {
					bw.Close()
				}
				var ib bytes.Buffer
				bam.WriteIndex(&ib, &idx)
				return fmt.Sprintf("records %d:%s", n, errKind(err))
			}
			exerciseRecord(rec, h, bw, &idx)
			n++
			if n > 10000 {
				return "too many records"
			}
		}
	case "sam":
		// every record line also through the header-less parser, whose
		// records refer to a made-up reference, and on to the index builders
		var fidx bam.Index
		cidx := csi.New(0, 0)
		for k, line := range bytes.Split(file.Data, []byte{'\n'}) {
			if k > 200 {
				break
			}
			if len(line) == 0 || line[0] == '@' {
				continue
			}
			var r sam.Record
			if r.UnmarshalText(line) == nil {
				exerciseRecord(&r, nil, nil, &fidx)
				cidx.Add(&r, bgzf.Chunk{Begin: bgzf.Offset{File: 10}, End: bgzf.Offset{File: 20}}, true, true)
			}
		}
		sr, err := sam.NewReader(rdr)
		if err != nil {
			return "open:" + errKind(err)
		}
		h := sr.Header()
		exerciseHeader(h)
		var out bytes.Buffer
		bw, _ := bam.NewWriter(&out, h, 1)
		var sidx bam.Index
		n := 0
		for {
			rec, err := sr.Read()
			if err != nil {
				if bw != nil {
					bw.Close()
				}
				return fmt.Sprintf("records %d:%s", n, errKind(err))
			}
			exerciseRecord(rec, h, bw, &sidx)
			n++
			if n > 10000 {
				return "too many records"
			}
		}
	case "bai":
		idx, err := bam.ReadIndex(rdr)
		if err != nil {
			return "read:" + errKind(err)
		}
		nr := idx.NumRefs()
		idx.Unmapped()
		refs := make([]*sam.Reference, minInt(nr, 8))
		for i := range refs {
			refs[i], _ = sam.NewReference(fmt.Sprintf("r%d", i), "", "", 1<<29-1, nil, nil)
		}
		if h, err := sam.NewHeader(nil, refs); err == nil {
			for i, r := range h.Refs() {
				idx.ReferenceStats(i)
				idx.Chunks(r, 0, 1<<29-1)
				idx.Chunks(r, 1000, 2000)
				idx.Chunks(r, 0, 0)
				idx.Chunks(r, 700, 700)
			}
		}
		var out bytes.Buffer
		bam.WriteIndex(&out, idx)
		return fmt.Sprintf("refs %d", nr)
	case "csi":
		idx, err := csi.ReadFrom(rdr)
		if err != nil {
			return "read:" + errKind(err)
		}
		nr := idx.NumRefs()
		idx.Unmapped()
		for i := 0; i < nr && i < 8; i++ {
			idx.ReferenceStats(i)
			// the index's own geometry (minShift, depth) is not exposed, so
			// only small intervals are queried: a query far beyond a (possibly
			// altered) geometry would enumerate an astronomic number of bins
			idx.Chunks(i, 0, 1000)
			idx.Chunks(i, 1000, 2000)
			idx.Chunks(i, 0, 0) // empty intervals
			idx.Chunks(i, 700, 700)
		}
		var out bytes.Buffer
		csi.WriteTo(&out, idx)
		return fmt.Sprintf("refs %d", nr)
	case "tabix":
		idx, err := tabix.ReadFrom(rdr)
		if err != nil {
			return "read:" + errKind(err)
		}
		nr := idx.NumRefs()
		idx.Unmapped()
		for i, name := range idx.Names() {
			if i < 8 && i < nr {
				idx.ReferenceStats(i)
			}
			idx.Chunks(name, 0, 1<<29-1)
			idx.Chunks(name, 0, 0)
			idx.Chunks(name, 700, 700)
		}
		var out bytes.Buffer
		tabix.WriteTo(&out, idx)
		return fmt.Sprintf("refs %d", nr)
	case "fai":
		idx, err := fai.ReadFrom(rdr)
		if err != nil {
			return "read:" + errKind(err)
		}
		var out bytes.Buffer
		fai.WriteTo(&out, idx)
		for _, r := range idx {
			// Position panics by contract for p outside [0, Length)
			if r.Length > 0 {
				r.Position(0)
				r.Position(r.Length - 1)
			}
		}
		// use the (possibly altered) index the way it is meant to be used:
		// to read sequences out of the FASTA file it was made from
		fasta := genValid("fasta-for-fai", c.GenSeed)
		f := fai.NewFile(bytes.NewReader(fasta), idx)
		for name, r := range idx {
			if s, err := f.Seq(name); err == nil {
				boundedDrain(s, r.Length, "fai Seq.Read")
			}
			if r.Length > 2 {
				if s, err := f.SeqRange(name, 1, r.Length-1); err == nil {
					boundedDrain(s, r.Length, "fai SeqRange Read")
				}
			}
		}
		return fmt.Sprintf("records %d", len(idx))
	case "fasta":
		idx, err := fai.NewIndex(rdr)
		if err != nil {
			return "index:" + errKind(err)
		}
		f := fai.NewFile(file.RA(), idx)
		n := 0
		for name, r := range idx {
			if s, err := f.Seq(name); err == nil {
				io.Copy(io.Discard, s)
			}
			if r.Length > 1 {
				if s, err := f.SeqRange(name, 1, r.Length-1); err == nil {
					io.Copy(io.Discard, s)
				}
			}
			n++
		}
		return fmt.Sprintf("records %d", n)
	case "cram":
		cram.HasEOF(file.RA())
		cr, err := cram.NewReader(rdr)
		if err != nil {
			return "open:" + errKind(err)
		}
		nc, nb := 0, 0
		for cr.Next() {
			ct := cr.Container()
			for ct.Next() {
				b := ct.Block()
				if v, err := b.Value(); err == nil {
					if h, ok := v.(*sam.Header); ok {
						exerciseHeader(h)
					}
				}
				nb++
				if nb > 100000 {
					return "too many blocks"
				}
			}
			ct.Err()
			nc++
			if nc > 100000 {
				return "too many containers"
			}
		}
		return fmt.Sprintf("containers %d blocks %d:%s", nc, nb, errKind(cr.Err()))
	}
	panic("c11: unknown target " + c.Target)
}

// boundedDrain reads r to its end; a reader that neither ends nor makes
// progress within a generous number of calls is reported (as a panic inside
// the simulation, which the harness turns into a violation) instead of
// spinning forever.
func boundedDrain(r io.Reader, expect int, what string) {
	if expect < 0 || expect > 1<<20 {
		expect = 1 << 20
	}
	buf := make([]byte, 64)
	total := 0
	for calls := 0; ; calls++ {
		n, err := r.Read(buf)
		total += n
		if err != nil {
			return
		}
		if calls > 4*expect+1000 || total > 64*expect+100000 {
			panic(fmt.Sprintf("no progress or no end: %s returned %d bytes in %d calls without an error (sequence length %d)", what, total, calls, expect))
		}
	}
}

func errKind(err error) string {
	if err == nil {
		return "ok"
	}
	return "error"
}

// wrapBAM puts an (un)corrupted BAM stream into valid BGZF members.
func wrapBAM(stream []byte, seed uint32) []byte {
	t := NewTape(uint64(seed), "C11-wrap", 0)
	var img []byte
	for len(stream) > 0 {
		n := 1 + t.Draw("work", 1500)
		if n > len(stream) {
			n = len(stream)
		}
		img = append(img, EncodeMember(stream[:n], MemberOpts{Level: 1, OS: 0xff})...)
		stream = stream[n:]
	}
	return append(img, SpecEOF...)
}

// bamStream builds a BAM stream; faults of kind rec-trim are applied
// structurally (a length-field edit): record A%n loses its last 1..8 bytes and
// its block_size is reduced accordingly, so the stream stays well framed but
// the record's last variable-length field is cut short.
func bamStream(seed uint32, faults []StoreFault) []byte {
	t := NewTape(uint64(seed), "C11-gen-bam-inner", 0)
	h := c11Header(t)
	stream := h.EncodeBAMHeader()
	recs := c11Records(t, h, 1+t.Draw("work", 6))
	for i, r := range recs {
		enc := r.EncodeBAM()
		for _, f := range faults {
			if f.Kind == "aux-retype" && f.A%len(recs) == i && len(r.Aux) > 0 {
				// a type edit: the type byte (or, for B arrays, the subtype
				// byte) of one aux field becomes another type letter
				off := len(enc)
				for k := len(r.Aux) - 1; k >= 0; k-- {
					_, raw := r.Aux[k].value()
					off -= len(raw)
					if k == (f.B>>4)%len(r.Aux) {
						pos := off + 2
						if r.Aux[k].Typ == "B" && f.B&1 == 1 {
							pos = off + 3
						}
						enc[pos] = "AcCsSiIfZHB"[(f.B>>8)%11]
					}
				}
			}
			if f.Kind == "rec-trim" && f.A%len(recs) == i {
				k := 1 + f.B%8
				if k < len(enc)-4 {
					enc = enc[:len(enc)-k]
					binary.LittleEndian.PutUint32(enc, uint32(len(enc)-4))
				}
			}
		}
		stream = append(stream, enc...)
	}
	return stream
}

// cramInner builds a CRAM file whose header block content (and the
// following blocks) carry the faults under correct checksums.
func cramInner(seed uint32, faults []StoreFault) []byte {
	t := NewTape(uint64(seed), "C11-gen-cram-inner", 0)
	var img []byte
	img = append(img, 'C', 'R', 'A', 'M', 3, 0)
	img = append(img, make([]byte, 20)...)
	ch := c11Header(t)
	text := ch.Text()
	hd := binary.LittleEndian.AppendUint32(nil, uint32(len(text)))
	hd = append(hd, text...)
	hd, _ = applyFaults(hd, faults)
	method := byte(t.Pick("work", 0, 0, 0, 1, 2, 3, 4, 0, 0, 1, 5, 9)) // 5 and 9: not a method of the specification
	blk := cramBlock(method, 0, 0, hd)
	img = append(img, cramContainer(0, 0, 0, 0, [][]byte{blk})...)
	for i, n := 0, t.Draw("work", 3); i < n; i++ {
		data, _ := applyFaults(make([]byte, 4+t.Draw("work", 60)), faults)
		img = append(img, cramContainer(int32(t.Draw("work", 3))-1, int32(t.Draw("work", 1000)), 100, 5,
			[][]byte{cramBlock(byte(t.Pick("work", 0, 1)), byte(t.Pick("work", 0, 1, 2, 4, 5)), int32(i), data)})...)
	}
	return img
}

func (c11) Exec(x *Exec, ci interface{}) *Verdict {
	c := ci.(*c11Case)
	vd := &Verdict{}
	var valid, img []byte
	var diff []bool
	switch c.Target {
	case "bam-inner":
		valid = wrapBAM(bamStream(c.GenSeed, nil), c.GenSeed)
		var rest []StoreFault
		for _, f := range c.Faults {
			if f.Kind != "rec-trim" && f.Kind != "aux-retype" {
				rest = append(rest, f)
			}
		}
		bad, _ := applyFaults(bamStream(c.GenSeed, c.Faults), rest)
		img = wrapBAM(bad, c.GenSeed)
		diff = make([]bool, len(img))
		for i := range diff {
			diff[i] = true
		}
	case "bam-aux-enum":
		// systematic structure-aware edits of one aux field (type byte,
		// B subtype, B count, first tag byte, terminator), exhaustive over a
		// fixed record list
		recs := c11AuxRecs()
		h := HdrSpec{SO: "unsorted", Refs: []RefSpec{{Name: "chr1", Len: 1000}}}
		build := func(edit *StoreFault) []byte {
			stream := h.EncodeBAMHeader()
			for i, r := range recs {
				enc := r.EncodeBAM()
				if edit != nil && edit.A/64 == i {
					off := len(enc)
					for k := len(r.Aux) - 1; k >= 0; k-- {
						_, raw := r.Aux[k].value()
						off -= len(raw)
						if k != edit.A%64 {
							continue
						}
						switch e := edit.B; {
						case e < 12:
							enc[off+2] = c11TypeLetters[e]
						case e < 24:
							if len(raw) > 3 {
								enc[off+3] = c11TypeLetters[e-12]
							}
						case e < 31:
							if len(raw) >= 8 {
								binary.LittleEndian.PutUint32(enc[off+4:], []uint32{0, 1, 7, 8, 9, 255, 1 << 31}[e-24])
							}
						case e == 31:
							enc[off] = 0
						case e == 32:
							enc[off+len(raw)-1] = 'x' // overwrite a terminator / last value byte
						default:
							// a NUL byte inserted in front of the field (block_size adjusted)
							enc = append(enc[:off], append([]byte{0}, enc[off:]...)...)
							binary.LittleEndian.PutUint32(enc, uint32(len(enc)-4))
						}
					}
				}
				stream = append(stream, enc...)
			}
			return wrapBAM(stream, 7)
		}
		valid = build(nil)
		img = build(&c.Faults[0])
		diff = make([]bool, len(img))
		for i := range diff {
			diff[i] = true
		}
	case "cram-inner":
		valid = cramInner(c.GenSeed, nil)
		img = cramInner(c.GenSeed, c.Faults)
		diff = make([]bool, len(img))
		for i := range diff {
			diff[i] = true
		}
	default:
		valid = genValid(c.Target, c.GenSeed)
		img, diff = applyFaults(valid, c.Faults)
	}
	for _, f := range c.Faults {
		x.Fault("stored:" + f.Kind)
	}
	run := func(name string, data []byte, withErr bool) (string, *Violation, string, *File) {
		file := &File{X: x, Name: "f", Data: data, Chunk: c.Chunk, Touched: make([]bool, len(data))}
		if len(data) > 20000 && c.Chunk == 1 {
			file.Chunk = 2
		}
		if withErr && c.ReadErr != nil {
			file.Faults = []Fault{*c.ReadErr}
		}
		var outcome string
		x.Procs = 2
		res := x.RunSim(name, estReadSteps(len(data), file.Chunk, c.Kind, 0)*3+2000, func() {
			outcome = decode(x, c, file)
		})
		v, inc := StructuralViolation(c.Target, &res)
		return outcome, v, inc, file
	}
	base, v, inc, _ := run("valid", valid, false)
	if v != nil || inc != "" {
		if v != nil {
			v.Class = "fault-free:" + v.Class
			v.Msg = "on the VALID (unfaulted) input: " + v.Msg
		}
		vd.V, vd.Inconcl = v, inc
		return vd
	}
	out, v, inc, file := run("faulted", img, true)
	if v != nil || inc != "" {
		vd.V, vd.Inconcl = v, inc
		return vd
	}
	touched := false
	for i := range diff {
		if diff[i] && i < len(file.Touched) && file.Touched[i] {
			touched = true
		}
	}
	if len(img) < len(valid) {
		touched = true
	}
	vd.NonTrivial = touched && out != base
	x.Probe("target:" + c.Target)
	if out != base {
		x.Probe("outcome_changed:" + c.Target)
	}
	vd.Sample = map[string]interface{}{"case": c, "valid_bytes": len(valid), "faulted_bytes": len(img), "fault_free_outcome": base, "outcome": out}
	return vd
}

func (c11) Shrinks(ci interface{}) []interface{} {
	c := ci.(*c11Case)
	var out []interface{}
	for i := range c.Faults {
		if len(c.Faults) > 1 {
			n := *c
			n.Faults = append(append([]StoreFault(nil), c.Faults[:i]...), c.Faults[i+1:]...)
			out = append(out, &n)
		}
	}
	if c.ReadErr != nil {
		n := *c
		n.ReadErr = nil
		out = append(out, &n)
	}
	if c.RD != 1 || c.Chunk != 0 || c.Kind != "read+seek" {
		n := *c
		n.RD, n.Chunk, n.Kind = 1, 0, "read+seek"
		out = append(out, &n)
	}
	return out
}
