package harness

import (
	"fmt"
	"strings"
	"time"

	"github.com/biogo/hts/bgzf"
)

// WOp is one operation of a BGZF writer script.
type WOp struct {
	Op string  `json:"op"` // write, flush, wait
	P  Payload `json:"p,omitempty"`
}

// HeaderOpts are the gzip header settings of a writer.
type HeaderOpts struct {
	Name    string     `json:"name,omitempty"`
	Comment string     `json:"comment,omitempty"`
	Extra   []Subfield `json:"extra,omitempty"`
	MTime   int64      `json:"mtime,omitempty"`
	OS      int        `json:"os"` // -1: leave the writer's default
}

// WCase is the writer half of a case.
type WCase struct {
	Level    int        `json:"level"`
	WC       int        `json:"wc"`
	Procs    int        `json:"procs"`
	Header   HeaderOpts `json:"header"`
	Ops      []WOp      `json:"ops"`
	MaxDelay int        `json:"max_delay"`
}

var wcChoices = []int{-1, 0, 1, 2, 3, 4, 8}

func genWCase(t *Tape, headers bool) WCase {
	w := WCase{Level: t.Range("work", -1, 9), WC: wcChoices[t.Draw("work", len(wcChoices))], Procs: t.Pick("work", 1, 2, 4), MaxDelay: t.Pick("work", 0, 0, 1, 3)}
	w.Header.OS = -1
	if headers && t.Chance("work", 1, 3) {
		if t.Bool("work") {
			w.Header.Name = "n" + strings.Repeat("x", t.Draw("work", 20))
		}
		if t.Bool("work") {
			w.Header.Comment = "c" + strings.Repeat("y", t.Draw("work", 40))
		}
		if t.Bool("work") {
			for i, n := 0, 1+t.Draw("work", 2); i < n; i++ {
				w.Header.Extra = append(w.Header.Extra, Subfield{SI1: byte('A' + t.Draw("work", 20)), SI2: byte('a' + t.Draw("work", 20)), Data: make([]byte, t.Draw("work", 12))})
			}
		}
		if t.Bool("work") {
			w.Header.MTime = int64(1 + t.Draw("work", 2000000000))
		}
		if t.Bool("work") {
			w.Header.OS = t.Draw("work", 256)
		}
	}
	big := t.Chance("work", 1, 10)
	n := 1 + t.Draw("work", 8)
	if t.Chance("work", 1, 6) {
		n = 8 + t.Draw("work", 30)
	}
	for i := 0; i < n; i++ {
		switch t.Draw("work", 10) {
		case 0, 1:
			w.Ops = append(w.Ops, WOp{Op: "flush"})
		case 2:
			w.Ops = append(w.Ops, WOp{Op: "wait"})
		default:
			w.Ops = append(w.Ops, WOp{Op: "write", P: genPayload(t, big && t.Chance("work", 1, 2))})
		}
	}
	return w
}

// Written is the concatenation of the script's payloads.
func (w *WCase) Written() []byte {
	var out []byte
	for _, op := range w.Ops {
		if op.Op == "write" {
			out = append(out, op.P.Bytes()...)
		}
	}
	return out
}

func (w *WCase) estSteps() int { return 60 + 40*len(w.Ops) }

func (w *WCase) extraBytes() []byte {
	var b []byte
	for _, s := range w.Header.Extra {
		b = append(b, s.SI1, s.SI2, byte(len(s.Data)), byte(len(s.Data)>>8))
		b = append(b, s.Data...)
	}
	return b
}

// newWriter constructs the writer under test for a case.
func (w *WCase) newWriter(f *File) (*bgzf.Writer, error) {
	bw, err := bgzf.NewWriterLevel(f.W(), w.Level, w.WC)
	if err != nil {
		return nil, err
	}
	bw.Name = w.Header.Name
	bw.Comment = w.Header.Comment
	bw.Extra = w.extraBytes()
	if w.Header.MTime != 0 {
		bw.ModTime = time.Unix(w.Header.MTime, 0)
	}
	if w.Header.OS >= 0 {
		bw.OS = byte(w.Header.OS)
	}
	return bw, nil
}

// apiErr is the first API error of a fault-free writer run.
type apiErr struct {
	Op  int
	Msg string
}

// runWriterScript drives the script and Close on bw, calling after(i) after
// each API call (i = len(ops) for Close). It stops at the first API error.
func runWriterScript(x *Exec, w *WCase, bw *bgzf.Writer, after func(i int, op string)) *apiErr {
	for i, op := range w.Ops {
		switch op.Op {
		case "write":
			p := op.P.Bytes()
			n, err := bw.Write(p)
			x.Fold("w.Write", uint64(n))
			if err != nil || n != len(p) {
				return &apiErr{i, fmt.Sprintf("Write(%d bytes) = %d, %v", len(p), n, err)}
			}
			// io.Writer: "Implementations must not retain p" - the caller
			// reuses its buffer as soon as Write has returned
			for j := range p {
				p[j] = ^p[j]
			}
		case "flush":
			if err := bw.Flush(); err != nil {
				return &apiErr{i, fmt.Sprintf("Flush() = %v", err)}
			}
		case "wait":
			if err := bw.Wait(); err != nil {
				return &apiErr{i, fmt.Sprintf("Wait() = %v", err)}
			}
		}
		if after != nil {
			after(i, op.Op)
		}
	}
	if err := bw.Close(); err != nil {
		return &apiErr{len(w.Ops), fmt.Sprintf("Close() = %v", err)}
	}
	if after != nil {
		after(len(w.Ops), "close")
	}
	return nil
}

// shrinkWOps proposes simpler op lists.
func shrinkWOps(ops []WOp) [][]WOp {
	var out [][]WOp
	// drop halves, then single ops
	if len(ops) > 1 {
		out = append(out, append([]WOp(nil), ops[:len(ops)/2]...), append([]WOp(nil), ops[len(ops)/2:]...))
	}
	for i := range ops {
		c := append(append([]WOp(nil), ops[:i]...), ops[i+1:]...)
		out = append(out, c)
	}
	// shrink payloads
	for i, op := range ops {
		if op.Op != "write" {
			continue
		}
		for _, nl := range []int{0, 1, op.P.Len / 2, op.P.Len - 1} {
			if nl >= 0 && nl < op.P.Len {
				c := append([]WOp(nil), ops...)
				c[i].P.Len = nl
				out = append(out, c)
			}
		}
		if op.P.Kind != "zeros" {
			c := append([]WOp(nil), ops...)
			c[i].P.Kind = "zeros"
			out = append(out, c)
		}
	}
	return out
}

func shrinkWCase(w WCase) []WCase {
	var out []WCase
	for _, ops := range shrinkWOps(w.Ops) {
		c := w
		c.Ops = ops
		out = append(out, c)
	}
	if w.WC != 1 {
		c := w
		c.WC = 1
		out = append(out, c)
	}
	if w.WC > 2 {
		c := w
		c.WC = 2
		out = append(out, c)
	}
	if w.Level != -1 {
		c := w
		c.Level = -1
		out = append(out, c)
	}
	if w.MaxDelay != 0 {
		c := w
		c.MaxDelay = 0
		out = append(out, c)
	}
	if w.Header.Name != "" || w.Header.Comment != "" || len(w.Header.Extra) > 0 || w.Header.MTime != 0 || w.Header.OS != -1 {
		c := w
		c.Header = HeaderOpts{OS: -1}
		out = append(out, c)
	}
	return out
}
