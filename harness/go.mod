module htsverif/harness

go 1.26

require (
	github.com/anishathalye/porcupine v1.3.0
	github.com/biogo/hts v0.0.0
)

replace github.com/biogo/hts => /repo
