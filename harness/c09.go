package harness

import (
	"bytes"
	"fmt"
	"io"
	"testing"

	"github.com/biogo/hts/bam"
	"github.com/biogo/hts/bgzf"
	"github.com/biogo/hts/bgzf/cache"
	"github.com/biogo/hts/bgzf/index"
)

// C09 — I/O faults never hang and are never swallowed.

// ROp is one operation of a reader history.
type ROp struct {
	Op    string `json:"op"`              // read, byte, seek, blocked, setcache, chunkcheck
	N     int    `json:"n,omitempty"`     // read size
	Block int    `json:"block,omitempty"` // seek: member index
	Off   int    `json:"off,omitempty"`   // seek: offset in member
	On    bool   `json:"on,omitempty"`    // blocked on/off
	Cache string `json:"cache,omitempty"` // setcache: "", lru, fifo, random, +stats
	Cap   int    `json:"cap,omitempty"`
}

// FileSpec describes a BGZF file built by the independent encoder.
type FileSpec struct {
	Members []Payload `json:"members"` // payload per member (Len 0 = empty member)
	EOF     bool      `json:"eof"`     // append the EOF marker
	Level   int       `json:"level"`
	ExtraB  bool      `json:"extra_before,omitempty"` // another subfield before BC
	ExtraA  bool      `json:"extra_after,omitempty"`  // another subfield after BC
	Stored  bool      `json:"stored,omitempty"`
	// ExtraBC: a subfield before BC whose payload spells a BC subfield
	// ("BC\x02\x00" and a size) - valid RFC 1952, and what a reader that
	// searches the extra field for the byte pattern trips over
	ExtraBC bool `json:"extra_with_bc_pattern,omitempty"`
}

// Build returns the file image.
func (fs *FileSpec) Build() []byte {
	var img []byte
	for _, p := range fs.Members {
		o := MemberOpts{Level: fs.Level, Stored: fs.Stored, OS: 0xff}
		if fs.ExtraB {
			o.Before = []Subfield{{'X', 'b', []byte{1, 2, 3}}}
		}
		if fs.ExtraA {
			o.After = []Subfield{{'Y', 'a', []byte{9}}}
		}
		if fs.ExtraBC {
			o.Before = append(o.Before, Subfield{'X', 'X', []byte{'B', 'C', 2, 0, 0x28, 0}})
		}
		img = append(img, EncodeMember(p.Bytes(), o)...)
	}
	if fs.EOF {
		img = append(img, SpecEOF...)
	}
	return img
}

type c09Case struct {
	Side string `json:"side"` // writer | reader
	// writer
	W *WCase `json:"w,omitempty"`
	// reader
	File  *FileSpec `json:"file,omitempty"`
	Hist  []ROp     `json:"hist,omitempty"`
	RD    int       `json:"rd,omitempty"`
	Cache string    `json:"cache,omitempty"`
	Cap   int       `json:"cap,omitempty"`
	Kind  string    `json:"reader_kind,omitempty"`
	Delay int       `json:"delay"`
	Fault Fault     `json:"fault"`
	Combo int       `json:"combo"`
	// BAM-level workloads (sides bamwriter, bamreader)
	Hdr  *HdrSpec  `json:"hdr,omitempty"`
	Recs []RecSpec `json:"recs,omitempty"`
	WC   int       `json:"wc,omitempty"`
	Stmt bool      `json:"stmt_yields,omitempty"`
}

type c09Combo struct {
	c      c09Case
	nWrite int
	nRead  int
	nSeek  int
}

// c09MaxIndex bounds the enumerated call index per workload (all listed
// workloads need fewer underlying calls in their fault-free run; the bound
// only protects the enumeration against a change that multiplies the calls).
const c09MaxIndex = 40

type c09Desc struct {
	combo int
	fault Fault
}

type c09 struct {
	combos []c09Combo
	descs  []c09Desc
}

var theC09 = &c09{}

func init() { register(theC09) }

func (*c09) ID() string       { return "C09" }
func (*c09) New() interface{} { return &c09Case{} }
func (*c09) Rule() string {
	return "fixed workload family (6 writer scripts x wc{0,1,2,4}; 6 reader histories x 3 files x rd{1,2,4} x {no cache, LRU(2)}; index.NewChunkReader + reuse of the reader x 2 files x rd{1,2}; bam.Iterator over three chunks x rd{1,2}; bam.Writer and bam.Reader workloads, the latter with a header of two members and several underlying reads); each workload is first run fault-free to count its underlying Write/Read/Seek calls N, then EVERY call index k<N+1 x fault kind {error without data, error after partial data} x {transient, persistent} is enumerated (exhaustive axis) and re-run under S seeded schedules with disk delays (quick S=6, thorough: cycling until the time budget ends); after the first error the client keeps using the API (remaining ops, Wait, Close). non-trivial: the fault fired while library goroutines other than the client were alive; distinct = (case, schedule signature)"
}

func c09WriterScripts() [][]WOp {
	w := func(n int, kind string) WOp {
		return WOp{Op: "write", P: Payload{Len: n, Kind: kind, Seed: uint32(n)*7 + 1}}
	}
	fl, wt := WOp{Op: "flush"}, WOp{Op: "wait"}
	many := []WOp{}
	for i := 0; i < 6; i++ {
		many = append(many, w(40+i, "text"), fl)
	}
	many = append(many, wt, w(9, "text"))
	return [][]WOp{
		{w(100, "text")},
		{w(3*bs, "mixed")},
		{w(50, "text"), fl, w(60, "text"), fl, wt, w(70, "text")},
		many,
		{w(bs+1, "text"), fl, wt, w(2*bs, "zeros")},
		{},
	}
}

func c09Files() []FileSpec {
	p := func(n int, seed uint32) Payload { return Payload{Len: n, Kind: "text", Seed: seed} }
	return []FileSpec{
		{Members: []Payload{p(500, 1), p(300, 2), p(700, 3), p(200, 4), p(400, 5)}, EOF: true, Level: -1},
		{Members: []Payload{p(9000, 6), p(0, 0), p(100, 7), p(0, 0), p(5000, 8), p(4000, 9)}, EOF: false, Level: 1, ExtraB: true},
		{Members: []Payload{p(bs, 10), p(20000, 11), p(bs-1, 12)}, EOF: true, Level: 1, ExtraA: true},
	}
}

func c09Histories(nm int) [][]ROp {
	rd := func(n int) ROp { return ROp{Op: "read", N: n} }
	sk := func(b, o int) ROp { return ROp{Op: "seek", Block: b, Off: o} }
	h := [][]ROp{
		{rd(64), rd(1000), rd(100000), rd(100000)},
		{rd(600), sk(0, 0), rd(100000), rd(100000)},
		{},
		{sk(nm-1, 0), rd(100000), sk(0, 10), rd(100), rd(100000)},
		{{Op: "byte"}, {Op: "byte"}, {Op: "byte"}, sk(2, 5), rd(50), {Op: "byte"}, sk(1, 0), rd(100000)},
		{}, // open and close at once
	}
	for b := nm - 1; b >= 0; b-- {
		h[2] = append(h[2], sk(b, 0), rd(10))
	}
	return h
}

// Init builds the enumeration: every (workload, call index, fault kind).
func (p *c09) Init(t *testing.T, seed uint64, tier string) {
	if p.combos != nil {
		return
	}
	for si, ops := range c09WriterScripts() {
		for _, wc := range []int{0, 1, 2, 4} {
			_ = si
			w := &WCase{Level: -1, WC: wc, Procs: 2, Header: HeaderOpts{OS: -1}, Ops: ops}
			p.combos = append(p.combos, c09Combo{c: c09Case{Side: "writer", W: w}})
		}
	}
	for fi := range c09Files() {
		fs := c09Files()[fi]
		for _, hist := range c09Histories(len(fs.Members)) {
			for _, rd := range []int{1, 2, 4} {
				for _, ch := range []string{"", "lru"} {
					f := fs
					p.combos = append(p.combos, c09Combo{c: c09Case{Side: "reader", File: &f, Hist: hist, RD: rd, Cache: ch, Cap: 2, Kind: "read+seek"}})
				}
			}
		}
	}
	for fi := range c09Files()[:2] {
		fs := c09Files()[fi]
		for _, rd := range []int{1, 2} {
			f := fs
			p.combos = append(p.combos, c09Combo{c: c09Case{Side: "chunkreader", File: &f, RD: rd, Kind: "read+seek"}})
		}
	}
	// BAM-level workloads: a fixed header and record list
	{
		gt := NewTape(99, "C09-bam", 0)
		h := HdrSpec{SO: "unsorted", Refs: []RefSpec{{Name: "chr1", Len: 100000}, {Name: "chr2", Len: 50000}}}
		var recs []RecSpec
		for i := 0; i < 9; i++ {
			size := 0
			if i == 4 {
				size = 1 // around the inline buffer
			}
			recs = append(recs, genRec(gt, len(h.Refs), size, i))
		}
		for _, wc := range []int{1, 2} {
			hh := h
			p.combos = append(p.combos, c09Combo{c: c09Case{Side: "bamwriter", Hdr: &hh, Recs: recs, WC: wc}})
		}
		for _, rd := range []int{1, 2, 4} {
			hh := h
			// a header of several underlying reads (the reader's bufio layer
			// asks for 4 KiB at a time), so that faults land inside it
			ct := NewTape(98, "C09-bam-comment", 0)
			co := make([]byte, 9000)
			for i := range co {
				co[i] = byte('a' + ct.Draw("work", 26))
			}
			hh.Comments = []string{string(co)}
			p.combos = append(p.combos, c09Combo{c: c09Case{Side: "bamreader", Hdr: &hh, Recs: recs, RD: rd, Kind: "read+seek"}})
		}
		// the iterator workload wants every chunk several underlying reads
		// long: records around 4 KiB
		var bigRecs []RecSpec
		it := NewTape(97, "C09-bam-iter", 0)
		for i := 0; i < 9; i++ {
			bigRecs = append(bigRecs, genRec(it, len(h.Refs), 1, i))
		}
		for _, rd := range []int{1, 2} {
			hh := h
			p.combos = append(p.combos, c09Combo{c: c09Case{Side: "bamiterator", Hdr: &hh, Recs: bigRecs, RD: rd, Kind: "read+seek"}})
		}
	}
	// fault-free counting runs (all-zero tape: the simplest schedule)
	for i := range p.combos {
		cb := &p.combos[i]
		cb.c.Combo = i
		cb.c.Fault = Fault{Op: "none"}
		x := NewExec(t, ReplayTape(nil), NewStats())
		vd, wr, rdc, sk := p.exec(x, &cb.c)
		if vd.V != nil {
			// a fault-free failure is reported by the runs themselves
			wr, rdc, sk = wr+1, rdc+1, sk+1
		}
		cb.nWrite, cb.nRead, cb.nSeek = wr, rdc, sk
		if cb.c.Side == "writer" || cb.c.Side == "bamwriter" {
			for k := 0; k <= wr && k <= c09MaxIndex; k++ {
				for _, kind := range []string{"err", "partial"} {
					for _, pers := range []bool{false, true} {
						p.descs = append(p.descs, c09Desc{i, Fault{Op: "write", At: k, Kind: kind, Persistent: pers}})
					}
				}
			}
		} else {
			for k := 0; k <= rdc+1 && k <= c09MaxIndex; k++ {
				for _, kind := range []string{"err", "partial"} {
					for _, pers := range []bool{false, true} {
						p.descs = append(p.descs, c09Desc{i, Fault{Op: "read", At: k, Kind: kind, Persistent: pers}})
					}
				}
			}
			for k := 0; k <= sk && k <= c09MaxIndex; k++ {
				for _, pers := range []bool{false, true} {
					p.descs = append(p.descs, c09Desc{i, Fault{Op: "seek", At: k, Kind: "err", Persistent: pers}})
				}
			}
		}
	}
}

func (p *c09) Runs(tier string) int {
	if tier == "quick" {
		return 6 * len(p.descs)
	}
	return 0
}

func (p *c09) Gen(t *Tape, tier string, run int) interface{} {
	d := p.descs[run%len(p.descs)]
	c := p.combos[d.combo].c
	c.Fault = d.fault
	c.Delay = t.Pick("work", 0, 1, 3)
	c.Stmt = t.Chance("work", 1, 6)
	if c.Side == "reader" {
		c.Kind = []string{"read+seek", "read+seek", "read+seek+byte"}[t.Draw("work", 3)]
		if len(c.File.Build()) > 20000 {
			c.Kind = "read+seek"
		}
	}
	return &c
}

func (p *c09) Exec(x *Exec, ci interface{}) *Verdict {
	vd, _, _, _ := p.exec(x, ci.(*c09Case))
	return vd
}

func mkCache(kind string, capacity int) bgzf.Cache {
	var c cache.Cache
	base := kind
	stats := false
	if len(kind) > 6 && kind[len(kind)-6:] == "+stats" {
		base = kind[:len(kind)-6]
		stats = true
	}
	switch base {
	case "lru":
		c = cache.NewLRU(capacity)
	case "fifo":
		c = cache.NewFIFO(capacity)
	case "random":
		c = cache.NewRandom(capacity)
	default:
		return nil
	}
	if stats {
		return &cache.StatsRecorder{Cache: c}
	}
	return c
}

func (p *c09) exec(x *Exec, c *c09Case) (vd *Verdict, nW, nR, nS int) {
	vd = &Verdict{}
	x.StmtYields = false
	x.StmtAll = c.Stmt && (c.File == nil || len(c.File.Members) > 0 && c.File.Members[0].Len < 20000)
	switch c.Side {
	case "writer":
		return p.execWriter(x, c, vd)
	case "bamwriter":
		return p.execBAMWriter(x, c, vd)
	case "bamreader":
		return p.execBAMReader(x, c, vd)
	case "chunkreader":
		return p.execChunkReader(x, c, vd)
	case "bamiterator":
		return p.execBAMIterator(x, c, vd)
	}
	return p.execReader(x, c, vd)
}

func (p *c09) execWriter(x *Exec, c *c09Case, vd *Verdict) (*Verdict, int, int, int) {
	file := &File{X: x, Name: "f", MaxDelay: c.Delay}
	if c.Fault.Op == "write" {
		file.Faults = []Fault{c.Fault}
	}
	type callRes struct {
		op  string
		err error
	}
	var calls []callRes
	var ctorErr error
	liveAtFault := 0
	prev := x.Trace
	x.Trace = func(step, gid int, name, site string) {}
	defer func() { x.Trace = prev }()
	x.Procs = 2
	res := x.RunSim("write", c.W.estSteps(), func() {
		bw, err := c.W.newWriter(file)
		if err != nil {
			ctorErr = err
			return
		}
		for _, op := range c.W.Ops {
			var err error
			switch op.Op {
			case "write":
				pl := op.P.Bytes()
				var n int
				n, err = bw.Write(pl)
				if err == nil && n != len(pl) {
					err = fmt.Errorf("short write %d of %d without error", n, len(pl))
					calls = append(calls, callRes{"write-contract", err})
					continue
				}
			case "flush":
				err = bw.Flush()
			case "wait":
				err = bw.Wait()
			}
			calls = append(calls, callRes{op.Op, err})
		}
		calls = append(calls, callRes{"wait", bw.Wait()})
		calls = append(calls, callRes{"close", bw.Close()})
	})
	nW := file.Writes
	fired := len(file.Fired) > 0
	if fired {
		x.Probe("writer_fault_fired")
		_ = liveAtFault
	}
	if v, inc := StructuralViolation("write", &res); v != nil || inc != "" {
		vd.V, vd.Inconcl = v, inc
		return vd, nW, 0, 0
	}
	if ctorErr != nil {
		vd.V = Mismatch("ctor", "NewWriterLevel = %v", ctorErr)
		return vd, nW, 0, 0
	}
	// after Close nothing of the library may be left running
	if len(res.LiveLib) > 0 {
		vd.V = &Violation{Kind: "leak", Class: fmt.Sprintf("leak:writer:%v", describeSites(res.LiveLib)),
			Msg: fmt.Sprintf("after Writer.Close returned %d library goroutine(s) remain: %v", len(res.LiveLib), describe(res.LiveLib))}
		return vd, nW, 0, 0
	}
	seenErr := -1
	for i, cr := range calls {
		if cr.op == "write-contract" {
			vd.V = Mismatch("short-write-no-error", "%v", cr.err)
			return vd, nW, 0, 0
		}
		if cr.err != nil && seenErr < 0 {
			seenErr = i
		}
		if seenErr >= 0 && cr.err == nil {
			vd.V = Mismatch("error-forgotten", "call %d (%s) returned an error (%v) but the later call %d (%s) returned nil", seenErr, calls[seenErr].op, calls[seenErr].err, i, cr.op)
			return vd, nW, 0, 0
		}
	}
	closeErr := calls[len(calls)-1].err
	if fired && closeErr == nil {
		vd.V = Mismatch("fault-swallowed", "underlying write failed (%v) but Close returned nil", file.Fired)
		return vd, nW, 0, 0
	}
	if !fired && closeErr != nil {
		vd.V = Mismatch("spurious-error", "no fault fired but Close = %v", closeErr)
		return vd, nW, 0, 0
	}
	vd.NonTrivial = fired && res.Goroutines > 2
	vd.Sample = map[string]interface{}{"case": c, "fired": file.Fired, "steps": x.Steps, "underlying_writes": nW}
	return vd, nW, 0, 0
}

func describeSites(gs []simhookGInfo) []string {
	var out []string
	for _, g := range gs {
		out = append(out, stripLine(g.Name)+"@"+stripLine(g.Site))
	}
	return out
}

func (p *c09) execReader(x *Exec, c *c09Case, vd *Verdict) (*Verdict, int, int, int) {
	img := c.File.Build()
	flat, err := NewFlat(img)
	if err != nil {
		panic("c09: generated file does not parse: " + err.Error())
	}
	file := &File{X: x, Name: "f", Data: img, MaxDelay: c.Delay, Chunk: 0}
	if c.Fault.Op == "read" || c.Fault.Op == "seek" {
		file.Faults = []Fault{c.Fault}
	}
	var bad *Violation
	var openErr error
	x.Procs = 2
	x.StmtYields = false
	est := estReadSteps(len(img), 0, c.Kind, c.Delay) * 3
	res := x.RunSim("read", est, func() {
		r, err := bgzf.NewReader(file.As(c.Kind), c.RD)
		if err != nil {
			openErr = err
			return
		}
		if c.Cache != "" {
			r.SetCache(mkCache(c.Cache, c.Cap))
		}
		pos := int64(0)
		posKnown := true
		for i, op := range c.Hist {
			switch op.Op {
			case "read", "byte":
				var got []byte
				var err error
				if op.Op == "byte" {
					var b byte
					b, err = r.ReadByte()
					if err == nil {
						got = []byte{b}
					}
				} else {
					buf := make([]byte, op.N)
					var n int
					n, err = r.Read(buf)
					got = buf[:n]
				}
				if posKnown && len(got) > 0 {
					end := pos + int64(len(got))
					if end > int64(len(flat.Data)) || !bytes.Equal(got, flat.Data[pos:end]) {
						bad = Mismatch("wrong-bytes", "op %d (%s): returned %d bytes that are not the file's bytes at logical position %d (err=%v)", i, op.Op, len(got), pos, err)
						return
					}
					pos = end
				}
				if err == io.EOF && posKnown && pos < int64(len(flat.Data)) {
					bad = Mismatch("early-eof", "op %d (%s): io.EOF at logical position %d of %d", i, op.Op, pos, len(flat.Data))
					return
				}
				if err != nil && err != io.EOF {
					// after a failed read the position is only re-established by a successful Seek
					posKnown = false
				}
			case "seek":
				m := flat.Members[op.Block]
				err := r.Seek(bgzf.Offset{File: m.Off, Block: uint16(op.Off)})
				if err == nil {
					pos = flat.Start[op.Block] + int64(op.Off)
					posKnown = true
				} else {
					posKnown = false
				}
			}
		}
		r.Close()
	})
	nR, nS := file.Reads, file.Seeks
	fired := len(file.Fired) > 0
	if fired {
		x.Probe("reader_fault_fired")
	}
	if v, inc := StructuralViolation("read", &res); v != nil || inc != "" {
		vd.V, vd.Inconcl = v, inc
		return vd, 0, nR, nS
	}
	if bad != nil {
		vd.V = bad
		return vd, 0, nR, nS
	}
	if openErr != nil && !fired {
		vd.V = Mismatch("open", "NewReader on a valid file without fault = %v", openErr)
		return vd, 0, nR, nS
	}
	if len(res.LiveLib) > 0 {
		vd.V = &Violation{Kind: "leak", Class: fmt.Sprintf("leak:reader:%v", describeSites(res.LiveLib)),
			Msg: fmt.Sprintf("after Reader.Close (or a failed NewReader) returned, %d library goroutine(s) remain: %v", len(res.LiveLib), describe(res.LiveLib))}
		return vd, 0, nR, nS
	}
	vd.NonTrivial = fired && res.Goroutines > 1
	vd.Sample = map[string]interface{}{"case": c, "fired": file.Fired, "steps": x.Steps, "underlying_reads": nR, "underlying_seeks": nS}
	return vd, 0, nR, nS
}

// bamImage builds the BAM file of a bamreader case with the independent encoders.
func (c *c09Case) bamImage() []byte {
	// the header spans two members: a fault on the second one strikes after
	// bgzf.NewReader has started its read-ahead worker, inside the header decode
	stream := c.Hdr.EncodeBAMHeader()
	img := EncodeMember(stream[:len(stream)/2], MemberOpts{Level: 1, OS: 0xff})
	img = append(img, EncodeMember(stream[len(stream)/2:], MemberOpts{Level: 1, OS: 0xff})...)
	var cur []byte
	for i := range c.Recs {
		cur = append(cur, c.Recs[i].EncodeBAM()...)
		if i%2 == 1 || i == len(c.Recs)-1 {
			img = append(img, EncodeMember(cur, MemberOpts{Level: 1, OS: 0xff})...)
			cur = nil
		}
	}
	return append(img, SpecEOF...)
}

func (p *c09) execBAMWriter(x *Exec, c *c09Case, vd *Verdict) (*Verdict, int, int, int) {
	file := &File{X: x, Name: "f", MaxDelay: c.Delay}
	if c.Fault.Op == "write" {
		file.Faults = []Fault{c.Fault}
	}
	type callRes struct {
		op  string
		err error
	}
	var calls []callRes
	var buildErr error
	x.Procs = 2
	res := x.RunSim("bamwrite", 300+60*len(c.Recs), func() {
		h, err := c.Hdr.SamHeader()
		if err != nil {
			buildErr = err
			return
		}
		bw, err := bam.NewWriter(file.W(), h, c.WC)
		calls = append(calls, callRes{"new", err})
		if err != nil {
			return
		}
		for i := range c.Recs {
			rec, err := c.Recs[i].SamRecord(h)
			if err != nil {
				buildErr = err
				return
			}
			calls = append(calls, callRes{"write", bw.Write(rec)})
		}
		calls = append(calls, callRes{"close", bw.Close()})
	})
	nW := file.Writes
	fired := len(file.Fired) > 0
	if fired {
		x.Probe("bamwriter_fault_fired")
	}
	if v, inc := StructuralViolation("bamwrite", &res); v != nil || inc != "" {
		vd.V, vd.Inconcl = v, inc
		return vd, nW, 0, 0
	}
	if buildErr != nil {
		panic("c09: building BAM inputs: " + buildErr.Error())
	}
	last := calls[len(calls)-1]
	if (last.op == "close" || last.op == "new" && last.err != nil) && len(res.LiveLib) > 0 {
		// a failed NewWriter hands the caller nothing to close
		vd.V = &Violation{Kind: "leak", Class: fmt.Sprintf("leak:bamwriter:%v", describeSites(res.LiveLib)),
			Msg: fmt.Sprintf("after bam.Writer.Close (or a failed bam.NewWriter) returned %d library goroutine(s) remain: %v", len(res.LiveLib), describe(res.LiveLib))}
		return vd, nW, 0, 0
	}
	seenErr := -1
	for i, cr := range calls {
		if cr.err != nil && seenErr < 0 {
			seenErr = i
		}
		if seenErr >= 0 && cr.err == nil {
			vd.V = Mismatch("bam-error-forgotten", "call %d (%s) returned an error (%v) but the later call %d (%s) returned nil", seenErr, calls[seenErr].op, calls[seenErr].err, i, cr.op)
			return vd, nW, 0, 0
		}
	}
	if fired && last.err == nil {
		vd.V = Mismatch("bam-fault-swallowed", "underlying write failed (%v) but the last call (%s) returned nil", file.Fired, last.op)
		return vd, nW, 0, 0
	}
	if !fired && last.err != nil {
		vd.V = Mismatch("bam-spurious-error", "no fault fired but %s = %v", last.op, last.err)
		return vd, nW, 0, 0
	}
	vd.NonTrivial = fired && res.Goroutines > 2
	vd.Sample = map[string]interface{}{"side": c.Side, "wc": c.WC, "fault": c.Fault, "fired": file.Fired, "steps": x.Steps, "underlying_writes": nW}
	return vd, nW, 0, 0
}

// execChunkReader: index.NewChunkReader over members 1..3 of the file under
// every read/seek fault. Whatever happens, the bgzf.Reader must afterwards
// still be an ordinary reader: a Seek to member 1 followed by reads returns
// the rest of the data up to the true end or an error, never a clean end at
// a block boundary (a ChunkReader that failed to open, or was closed, must
// not leave the reader in Blocked mode).
func (p *c09) execChunkReader(x *Exec, c *c09Case, vd *Verdict) (*Verdict, int, int, int) {
	img := c.File.Build()
	flat, err := NewFlat(img)
	if err != nil {
		panic(err)
	}
	file := &File{X: x, Name: "f", Data: img, MaxDelay: c.Delay}
	if c.Fault.Op == "read" || c.Fault.Op == "seek" {
		file.Faults = []Fault{c.Fault}
	}
	// the first and the last non-empty member after member 0
	var mem []int
	for i := 1; i < len(flat.Members); i++ {
		if len(flat.Members[i].Payload) > 0 {
			mem = append(mem, i)
		}
	}
	if len(mem) < 2 {
		panic("c09: chunkreader workload needs three non-empty members")
	}
	a, b := mem[0], mem[len(mem)-1]
	chunks := []bgzf.Chunk{{Begin: bgzf.Offset{File: flat.Members[a].Off, Block: 1}, End: bgzf.Offset{File: flat.Members[b].Off, Block: 2}}}
	want := flat.Data[flat.Start[a]+1 : flat.Start[b]+2]
	rest := flat.Data[flat.Start[a]:]
	var bad *Violation
	x.Procs = 2
	res := x.RunSim("chunkread", estReadSteps(len(img), 0, "read+seek", c.Delay)*4+400, func() {
		r, err := bgzf.NewReader(file.As("read+seek"), c.RD)
		if err != nil {
			if len(file.Fired) == 0 {
				bad = Mismatch("open", "NewReader on a valid file without fault = %v", err)
			}
			return
		}
		defer r.Close()
		cr, err := index.NewChunkReader(r, chunks)
		if err == nil {
			got, rerr := io.ReadAll(cr)
			if rerr == nil && !bytes.Equal(got, want) {
				bad = Mismatch("chunkreader-data", "ChunkReader returned %d bytes and a clean end, the chunk holds %d (faults fired: %v)", len(got), len(want), file.Fired)
			} else if rerr != nil && !bytes.HasPrefix(want, got) {
				bad = Mismatch("chunkreader-data", "ChunkReader returned %d bytes that are not a prefix of the chunk, then %v", len(got), rerr)
			} else if rerr != nil && len(file.Fired) == 0 {
				bad = Mismatch("chunkreader-error", "ChunkReader failed without a fault: %v", rerr)
			}
			cr.Close()
		} else if len(file.Fired) == 0 {
			bad = Mismatch("chunkreader-open", "NewChunkReader without a fault = %v", err)
		}
		if bad != nil {
			return
		}
		// the reader afterwards
		if err := r.Seek(bgzf.Offset{File: flat.Members[a].Off}); err != nil {
			return
		}
		got, rerr := io.ReadAll(r)
		if rerr == nil && !bytes.Equal(got, rest) {
			bad = Mismatch("early-eof", "after the ChunkReader (open error: %v) Seek to member %d and reading to the end returned %d of %d bytes and a clean end (faults fired: %v)", err, a, len(got), len(rest), file.Fired)
		} else if rerr != nil && !bytes.HasPrefix(rest, got) {
			bad = Mismatch("wrong-bytes", "after the ChunkReader the reader returned %d bytes that are not the file's, then %v", len(got), rerr)
		}
	})
	nR, nS := file.Reads, file.Seeks
	fired := len(file.Fired) > 0
	if fired {
		x.Probe("chunkreader_fault_fired")
	}
	if v, inc := StructuralViolation("chunkread", &res); v != nil || inc != "" {
		vd.V, vd.Inconcl = v, inc
		return vd, 0, nR, nS
	}
	if bad != nil {
		vd.V = bad
		return vd, 0, nR, nS
	}
	if len(res.LiveLib) > 0 {
		vd.V = &Violation{Kind: "leak", Class: fmt.Sprintf("leak:chunkreader:%v", describeSites(res.LiveLib)),
			Msg: fmt.Sprintf("after Reader.Close returned, %d library goroutine(s) remain: %v", len(res.LiveLib), describe(res.LiveLib))}
		return vd, 0, nR, nS
	}
	vd.NonTrivial = fired && res.Goroutines > 1
	vd.Sample = map[string]interface{}{"side": c.Side, "rd": c.RD, "fault": c.Fault, "fired": file.Fired, "steps": x.Steps, "underlying_reads": nR, "underlying_seeks": nS}
	return vd, 0, nR, nS
}

// execBAMIterator: bam.Iterator over three record chunks (noted in a
// fault-free pass on a separate simulated file) under every read/seek fault.
// The records yielded must be a prefix of the records of the chunks, in
// order; when fewer come back, Error() or Close() must say why - a fault is
// never the end of a chunk.
func (p *c09) execBAMIterator(x *Exec, c *c09Case, vd *Verdict) (*Verdict, int, int, int) {
	img := c.bamImage()
	clean := &File{X: x, Name: "clean", Data: img}
	file := &File{X: x, Name: "f", Data: img, MaxDelay: c.Delay}
	if c.Fault.Op == "read" || c.Fault.Op == "seek" {
		file.Faults = []Fault{c.Fault}
	}
	spans := [][2]int{{1, 2}, {4, 6}, {8, 8}}
	var want []string
	for _, sp := range spans {
		for i := sp[0]; i <= sp[1] && i < len(c.Recs); i++ {
			want = append(want, c.Recs[i].Name)
		}
	}
	var bad *Violation
	x.Procs = 2
	res := x.RunSim("bamiter", estReadSteps(len(img), 0, c.Kind, c.Delay)*6+120*len(c.Recs), func() {
		// pass 1, fault free: the chunk of every record
		r1, err := bam.NewReader(clean.As("read+seek"), 1)
		if err != nil {
			bad = Mismatch("bam-open", "bam.NewReader on a valid file = %v", err)
			return
		}
		var chunks []bgzf.Chunk
		for {
			if _, err := r1.Read(); err != nil {
				break
			}
			chunks = append(chunks, r1.LastChunk())
		}
		r1.Close()
		if len(chunks) != len(c.Recs) {
			bad = Mismatch("bam-pass1", "sequential pass read %d of %d records", len(chunks), len(c.Recs))
			return
		}
		var list []bgzf.Chunk
		for _, sp := range spans {
			if sp[1] < len(chunks) {
				list = append(list, bgzf.Chunk{Begin: chunks[sp[0]].Begin, End: chunks[sp[1]].End})
			}
		}
		// pass 2 under the fault
		br, err := bam.NewReader(file.As(c.Kind), c.RD)
		if err != nil {
			if len(file.Fired) == 0 {
				bad = Mismatch("bam-open", "bam.NewReader without fault = %v", err)
			}
			return
		}
		defer br.Close()
		it, err := bam.NewIterator(br, list)
		if err != nil {
			if len(file.Fired) == 0 {
				bad = Mismatch("iterator-open", "NewIterator without fault = %v", err)
			}
			return
		}
		n := 0
		for it.Next() {
			name := it.Record().Name
			if n >= len(want) || name != want[n] {
				w := "nothing more"
				if n < len(want) {
					w = want[n]
				}
				bad = Mismatch("iterator-skips", "Iterator record %d is %q, want %s (faults fired: %v, Error() = %v)", n, name, w, file.Fired, it.Error())
				it.Close()
				return
			}
			n++
		}
		ierr, cerr := it.Error(), it.Close()
		if n < len(want) && ierr == nil && cerr == nil {
			bad = Mismatch("iterator-fault-swallowed", "Iterator stopped after %d of %d records with Error() = nil and Close() = nil (faults fired: %v)", n, len(want), file.Fired)
		} else if (ierr != nil || cerr != nil) && len(file.Fired) == 0 {
			bad = Mismatch("iterator-error", "Iterator failed without a fault: %v / %v", ierr, cerr)
		}
	})
	nR, nS := file.Reads, file.Seeks
	fired := len(file.Fired) > 0
	if fired {
		x.Probe("bamiterator_fault_fired")
	}
	if v, inc := StructuralViolation("bamiter", &res); v != nil || inc != "" {
		vd.V, vd.Inconcl = v, inc
		return vd, 0, nR, nS
	}
	if bad != nil {
		vd.V = bad
		return vd, 0, nR, nS
	}
	if len(res.LiveLib) > 0 {
		vd.V = &Violation{Kind: "leak", Class: fmt.Sprintf("leak:bamiterator:%v", describeSites(res.LiveLib)),
			Msg: fmt.Sprintf("after bam.Reader.Close returned, %d library goroutine(s) remain: %v", len(res.LiveLib), describe(res.LiveLib))}
		return vd, 0, nR, nS
	}
	vd.NonTrivial = fired && res.Goroutines > 1
	vd.Sample = map[string]interface{}{"side": c.Side, "rd": c.RD, "fault": c.Fault, "fired": file.Fired, "steps": x.Steps, "underlying_reads": nR}
	return vd, 0, nR, nS
}

func (p *c09) execBAMReader(x *Exec, c *c09Case, vd *Verdict) (*Verdict, int, int, int) {
	img := c.bamImage()
	file := &File{X: x, Name: "f", Data: img, MaxDelay: c.Delay, Chunk: 0}
	if c.Fault.Op == "read" || c.Fault.Op == "seek" {
		file.Faults = []Fault{c.Fault}
	}
	var bad *Violation
	x.Procs = 2
	res := x.RunSim("bamread", estReadSteps(len(img), 0, c.Kind, c.Delay)*3+60*len(c.Recs), func() {
		br, err := bam.NewReader(file.As(c.Kind), c.RD)
		if err != nil {
			if len(file.Fired) == 0 {
				bad = Mismatch("bam-open", "bam.NewReader on a valid file without fault = %v", err)
			}
			return
		}
		h := br.Header()
		n := 0
		for {
			rec, err := br.Read()
			if err == io.EOF {
				if n != len(c.Recs) {
					bad = Mismatch("bam-early-eof", "bam.Reader reported io.EOF after %d of %d records (faults fired: %v)", n, len(c.Recs), file.Fired)
				}
				break
			}
			if err != nil {
				break
			}
			if n >= len(c.Recs) {
				bad = Mismatch("bam-extra-record", "record %d returned, the file holds %d", n, len(c.Recs))
				break
			}
			if msg := c.Recs[n].CheckRecord(rec, h, 0); msg != "" {
				bad = Mismatch("bam-wrong-record", "record %d: %s (faults fired: %v)", n, msg, file.Fired)
				break
			}
			n++
		}
		br.Close()
	})
	nR, nS := file.Reads, file.Seeks
	fired := len(file.Fired) > 0
	if fired {
		x.Probe("bamreader_fault_fired")
	}
	if v, inc := StructuralViolation("bamread", &res); v != nil || inc != "" {
		vd.V, vd.Inconcl = v, inc
		return vd, 0, nR, nS
	}
	if bad != nil {
		vd.V = bad
		return vd, 0, nR, nS
	}
	if len(res.LiveLib) > 0 {
		vd.V = &Violation{Kind: "leak", Class: fmt.Sprintf("leak:bamreader:%v", describeSites(res.LiveLib)),
			Msg: fmt.Sprintf("after bam.Reader.Close (or a failed NewReader) returned, %d library goroutine(s) remain: %v", len(res.LiveLib), describe(res.LiveLib))}
		return vd, 0, nR, nS
	}
	vd.NonTrivial = fired && res.Goroutines > 1
	vd.Sample = map[string]interface{}{"side": c.Side, "rd": c.RD, "fault": c.Fault, "fired": file.Fired, "steps": x.Steps, "underlying_reads": nR}
	return vd, 0, nR, nS
}

func (p *c09) Shrinks(ci interface{}) []interface{} {
	c := ci.(*c09Case)
	var out []interface{}
	if c.Side == "bamwriter" || c.Side == "bamreader" || c.Side == "bamiterator" {
		for i := range c.Recs {
			n := *c
			n.Recs = append(append([]RecSpec(nil), c.Recs[:i]...), c.Recs[i+1:]...)
			out = append(out, &n)
		}
		if c.Delay != 0 {
			n := *c
			n.Delay = 0
			out = append(out, &n)
		}
		if c.Fault.At > 0 {
			n := *c
			n.Fault.At--
			out = append(out, &n)
		}
		return out
	}
	if c.Delay != 0 {
		n := *c
		n.Delay = 0
		out = append(out, &n)
	}
	if c.Side == "writer" {
		for _, ops := range shrinkWOps(c.W.Ops) {
			n := *c
			w := *c.W
			w.Ops = ops
			n.W = &w
			out = append(out, &n)
		}
		if c.W.WC > 1 {
			n := *c
			w := *c.W
			w.WC = 1
			n.W = &w
			out = append(out, &n)
		}
	} else {
		for i := range c.Hist {
			n := *c
			n.Hist = append(append([]ROp(nil), c.Hist[:i]...), c.Hist[i+1:]...)
			out = append(out, &n)
		}
		if c.Cache != "" {
			n := *c
			n.Cache = ""
			out = append(out, &n)
		}
		if c.RD > 2 {
			n := *c
			n.RD = 2
			out = append(out, &n)
		}
		if c.Kind != "read+seek" {
			n := *c
			n.Kind = "read+seek"
			out = append(out, &n)
		}
	}
	if c.Fault.At > 0 {
		n := *c
		n.Fault.At--
		out = append(out, &n)
	}
	if c.Fault.Persistent {
		n := *c
		n.Fault.Persistent = false
		out = append(out, &n)
	}
	if c.Fault.Kind == "partial" {
		n := *c
		n.Fault.Kind = "err"
		out = append(out, &n)
	}
	return out
}
