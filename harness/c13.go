package harness

import (
	"bytes"
	"fmt"
	"io"

	"github.com/biogo/hts/bam"
	"github.com/biogo/hts/bgzf"
	"github.com/biogo/hts/bgzf/index"
)

// C13 — record chunks are replayable; ChunkReader returns exactly the spans.

type chunkSpec struct {
	I, J int // records i..j (part bam) or logical byte positions [I,J) (part bytes)
	// member-end representation for byte chunks: true = (member, len), false = (next member, 0)
	BeginAtEnd, EndAtEnd bool
}

type c13Case struct {
	Part string `json:"part"` // bam-writer, bam-split, bytes
	// bam parts
	Hdr   HdrSpec   `json:"hdr,omitempty"`
	Recs  []RecSpec `json:"recs,omitempty"`
	Split []int     `json:"split,omitempty"` // bam-split: member payload sizes (cycled)
	WC    int       `json:"wc,omitempty"`
	Iter  bool      `json:"iterator,omitempty"`
	// bytes part
	File  *FileSpec `json:"file,omitempty"`
	Reads []int     `json:"reads,omitempty"`
	// common
	Chunks []chunkSpec `json:"chunks"`
	RD     int         `json:"rd"`
	Procs  int         `json:"procs"`
	Chunk  int         `json:"disk_chunk"`
	Delay  int         `json:"delay"`
	Stmt   bool        `json:"stmt_yields,omitempty"`
	IOQ    int         `json:"io_quirks,omitempty"` // bit 0: final bytes arrive with io.EOF; bit 1: Read sometimes returns (0, nil)
}

type c13 struct{}

func init() { register(c13{}) }

func (c13) ID() string { return "C13" }
func (c13) Runs(tier string) int {
	if tier == "quick" {
		return 8000
	}
	return 0
}
func (c13) New() interface{} { return &c13Case{} }
func (c13) Rule() string {
	return "three parts, drawn per run. bam-writer: BAM files produced by the real bam.Writer with records sized to end exactly on / one byte before a BGZF block end and records larger than a block; bam-split: the independent BAM encoder's stream cut into members of drawn sizes (member ends inside, at and next to record ends, empty members). Pass 1 reads sequentially noting LastChunk per record; pass 2 replays drawn chunk lists (Begin of record i .. End of record j, any order, repeats; in a third of the chunks an End at the end of a member is respelled as (next member, 0)) through SetChunk or bam.NewIterator with rd in {0,1,2,4} and must yield exactly records i..j per chunk. bytes: index.ChunkReader over C02 files with ordered non-overlapping non-empty chunks with arbitrary boundaries in both representations of a member end and drawn read-buffer sizes must return exactly the flat bytes of each chunk, concatenated, then io.EOF. non-trivial: >=1 chunk begins or ends within 1 record/byte of a member boundary and rd>1; distinct = (case, schedule signature)"
}

// recOfSize returns a record whose BAM encoding is exactly total bytes.
func recOfSize(total, idx int, nrefs int) RecSpec {
	// 4 (block_size) + 32 fixed + name + NUL + Z aux (3 + N + 1)
	name := fmt.Sprintf("x%d", idx)
	n := total - 4 - 32 - len(name) - 1 - 4
	r := RecSpec{Name: name, RefID: -1, NextRef: -1, Pos: -1, NextPos: -1, Seed: uint32(idx)}
	if n < 0 {
		panic("recOfSize: too small")
	}
	r.Aux = []AuxSpec{{Tag: "Zz", Typ: "Z", N: n, Seed: uint32(idx)}}
	return r
}

func (c13) Gen(t *Tape, tier string, run int) interface{} {
	c := c13{}.gen0(t, tier, run)
	c.IOQ = t.Pick("work", 0, 0, 1, 2, 3)
	return c
}

func (c13) gen0(t *Tape, tier string, run int) *c13Case {
	c := &c13Case{RD: t.Pick("work", 0, 1, 2, 2, 4), Procs: t.Pick("work", 1, 2, 4), Chunk: t.Pick("work", 0, 0, 2), Delay: t.Pick("work", 0, 0, 1)}
	c.Stmt = t.Chance("work", 1, 4)
	switch k := t.Draw("work", 10); {
	case k < 2:
		c.Part = "bam-writer"
		c.Stmt = false
	case k < 6:
		c.Part = "bam-split"
	default:
		c.Part = "bytes"
	}
	if c.Part == "bytes" {
		fs := genFileSpec(t, false)
		c.File = &fs
		total := 0
		for _, m := range fs.Members {
			total += m.Len
		}
		// ordered, non-overlapping, non-empty chunks over logical positions
		pos := 0
		for pos < total && len(c.Chunks) < 6 {
			b := pos + t.Draw("work", minInt(total-pos, 1+total/3))
			if b >= total {
				break
			}
			e := b + 1 + t.Draw("work", minInt(total-b, 1+total/2))
			if e > total {
				e = total
			}
			c.Chunks = append(c.Chunks, chunkSpec{I: b, J: e, BeginAtEnd: t.Bool("work"), EndAtEnd: t.Bool("work")})
			pos = e
		}
		for i, n := 0, 1+t.Draw("work", 4); i < n; i++ {
			c.Reads = append(c.Reads, []int{1, 2, 7, 64, 1000, 100000}[t.Draw("work", 6)])
		}
		return c
	}
	c.Hdr = genHdr(t)
	c.Iter = t.Bool("work")
	if c.Part == "bam-writer" {
		c.WC = t.Pick("work", 1, 2, 4)
		// fill blocks exactly / almost, add an oversize record
		used := 0
		idx := 0
		nblocks := 2 + t.Draw("work", 2)
		for b := 0; b < nblocks; b++ {
			for i, n := 0, t.Draw("work", 4); i < n; i++ {
				r := genRec(t, len(c.Hdr.Refs), 0, idx)
				idx++
				c.Recs = append(c.Recs, r)
				used += len(r.EncodeBAM())
			}
			rem := bs - used%bs
			short := t.Pick("work", 0, 0, 1, 2)
			if rem-short >= 60 {
				c.Recs = append(c.Recs, recOfSize(rem-short, idx, 0))
				idx++
				used += rem - short
			}
		}
		if t.Chance("work", 1, 3) {
			c.Recs = append(c.Recs, genRec(t, len(c.Hdr.Refs), 2, idx))
			idx++
		}
		for i, n := 0, 1+t.Draw("work", 3); i < n; i++ {
			c.Recs = append(c.Recs, genRec(t, len(c.Hdr.Refs), 0, idx))
			idx++
		}
	} else {
		n := 1 + t.Draw("work", 14)
		for i := 0; i < n; i++ {
			c.Recs = append(c.Recs, genRec(t, len(c.Hdr.Refs), 0, i))
		}
		for i, k := 0, 1+t.Draw("work", 6); i < k; i++ {
			c.Split = append(c.Split, []int{0, 1, 3, 36, 40, 100, 500, 4000}[t.Draw("work", 8)])
		}
	}
	nrec := len(c.Recs)
	// Chunk lists are non-empty: bam.NewIterator(r, nil) deliberately iterates
	// over everything (the repository's TestSpecExamplesIterator relies on
	// it), so "an empty list yields nothing" is not part of the property.
	for i, n := 0, 1+t.Draw("work", 5); i < n; i++ {
		a := t.Draw("work", nrec)
		b := a + t.Draw("work", minInt(nrec-a, 4))
		// EndAtEnd doubles as "keep the End as reported" for record chunks:
		// when false and the End lies at the end of a member, it is respelled
		// as (next member, 0) - the same position, and the form index files
		// written by other tools use
		c.Chunks = append(c.Chunks, chunkSpec{I: a, J: b, EndAtEnd: !t.Chance("work", 1, 3)})
	}
	return c
}

// buildBAM returns the file image for the bam parts.
func (c *c13Case) buildBAM(x *Exec) ([]byte, *Violation) {
	if c.Part == "bam-writer" {
		file := &File{X: x, Name: "w"}
		h, err := c.Hdr.SamHeader()
		if err != nil {
			return nil, Mismatch("build", "header: %v", err)
		}
		bw, err := bam.NewWriter(file.W(), h, c.WC)
		if err != nil {
			return nil, Mismatch("build", "NewWriter: %v", err)
		}
		for i := range c.Recs {
			rec, err := c.Recs[i].SamRecord(h)
			if err == nil {
				err = bw.Write(rec)
			}
			if err != nil {
				return nil, Mismatch("build", "record %d: %v", i, err)
			}
		}
		if err := bw.Close(); err != nil {
			return nil, Mismatch("build", "Close: %v", err)
		}
		return file.Data, nil
	}
	stream := c.Hdr.EncodeBAMHeader()
	for i := range c.Recs {
		stream = append(stream, c.Recs[i].EncodeBAM()...)
	}
	var img []byte
	for i := 0; len(stream) > 0 || i == 0; i++ {
		n := c.Split[i%len(c.Split)]
		if i >= 4*len(c.Split) && n < 500 {
			n = 500 // keep the number of members bounded
		}
		if n > len(stream) {
			n = len(stream)
		}
		img = append(img, EncodeMember(stream[:n], MemberOpts{Level: 1, OS: 0xff})...)
		stream = stream[n:]
		if len(stream) == 0 {
			break
		}
	}
	img = append(img, SpecEOF...)
	return img, nil
}

func (p c13) Exec(x *Exec, ci interface{}) *Verdict {
	c := ci.(*c13Case)
	x.Procs = c.Procs
	x.StmtAll = c.Stmt
	if c.Part == "bytes" {
		return p.execBytes(x, c)
	}
	vd := &Verdict{}
	img, v := c.buildBAM(x)
	if v != nil {
		vd.V = v
		return vd
	}
	flat, err := NewFlat(img)
	if err != nil {
		vd.V = Mismatch("build", "file does not parse: %v", err)
		return vd
	}
	// pass 1: sequential read noting the chunk of every record
	var chunks []bgzf.Chunk
	var bad *Violation
	f1 := &File{X: x, Name: "f", Data: img}
	res := x.RunSim("pass1", estReadSteps(len(img), 0, "read+seek", 0)+40*len(c.Recs), func() {
		br, err := bam.NewReader(f1.As("read+seek"), 1)
		if err != nil {
			bad = Mismatch("open", "NewReader = %v", err)
			return
		}
		for i := range c.Recs {
			rec, err := br.Read()
			if err != nil {
				bad = Mismatch("pass1-read", "sequential Read of record %d = %v", i, err)
				return
			}
			if rec.Name != c.Recs[i].Name {
				bad = Mismatch("pass1-order", "sequential record %d is %q, want %q", i, rec.Name, c.Recs[i].Name)
				return
			}
			chunks = append(chunks, br.LastChunk())
		}
		br.Close()
	})
	if v, inc := StructuralViolation("pass1", &res); v != nil || inc != "" {
		vd.V, vd.Inconcl = v, inc
		return vd
	}
	if bad != nil {
		vd.V = bad
		return vd
	}
	// pass 2: replay chunk lists
	var list []bgzf.Chunk
	for _, cs := range c.Chunks {
		ch := bgzf.Chunk{Begin: chunks[cs.I].Begin, End: chunks[cs.J].End}
		if !cs.EndAtEnd {
			if k := flat.MemberAt(ch.End.File); k >= 0 && k+1 < len(flat.Members) && int(ch.End.Block) == len(flat.Members[k].Payload) {
				ch.End = bgzf.Offset{File: flat.Members[k+1].Off}
				x.Probe("record_chunk_end_respelled")
			}
		}
		list = append(list, ch)
	}
	near := false
	for _, ch := range list {
		for _, o := range []bgzf.Offset{ch.Begin, ch.End} {
			if i := flat.MemberAt(o.File); i >= 0 {
				l := len(flat.Members[i].Payload)
				if int(o.Block) <= 1 || int(o.Block) >= l-1 {
					near = true
				}
			}
		}
	}
	f2 := &File{X: x, Name: "f", Data: img, Chunk: c.Chunk, MaxDelay: c.Delay, EOFWithData: c.IOQ&1 != 0, ZeroReads: c.IOQ&2 != 0}
	res = x.RunSim("pass2", (estReadSteps(len(img), c.Chunk, "read+seek", c.Delay)+60*len(c.Recs))*(1+len(c.Chunks)), func() {
		br, err := bam.NewReader(f2.As("read+seek"), c.RD)
		if err != nil {
			bad = Mismatch("open", "NewReader = %v", err)
			return
		}
		if c.Iter {
			it, err := bam.NewIterator(br, list)
			if err != nil {
				bad = Mismatch("iterator", "NewIterator = %v", err)
				return
			}
			var want []string
			for _, cs := range c.Chunks {
				for k := cs.I; k <= cs.J; k++ {
					want = append(want, c.Recs[k].Name)
				}
			}
			n := 0
			for it.Next() {
				if n >= len(want) {
					bad = Mismatch("iterator-extra", "Iterator yields more than the %d records of chunks %v: extra %q", len(want), c.Chunks, it.Record().Name)
					return
				}
				if it.Record().Name != want[n] {
					bad = Mismatch("iterator-record", "Iterator record %d is %q, want %q (chunks %v)", n, it.Record().Name, want[n], c.Chunks)
					return
				}
				n++
			}
			if err := it.Close(); err != nil {
				bad = Mismatch("iterator-error", "Iterator stopped after %d of %d records with %v", n, len(want), err)
				return
			}
			if n != len(want) {
				bad = Mismatch("iterator-short", "Iterator yielded %d of %d records for chunks %v", n, len(want), c.Chunks)
				return
			}
		} else {
			for ci2, cs := range c.Chunks {
				ch := list[ci2]
				if err := br.SetChunk(&ch); err != nil {
					bad = Mismatch("setchunk", "SetChunk(%v) = %v", ch, err)
					return
				}
				for k := cs.I; k <= cs.J; k++ {
					rec, err := br.Read()
					if err != nil {
						bad = Mismatch("chunk-read", "chunk %d (records %d..%d, %v): Read of record %d = %v", ci2, cs.I, cs.J, ch, k, err)
						return
					}
					if rec.Name != c.Recs[k].Name {
						bad = Mismatch("chunk-record", "chunk %d (records %d..%d): got %q, want %q", ci2, cs.I, cs.J, rec.Name, c.Recs[k].Name)
						return
					}
				}
				if rec, err := br.Read(); err != io.EOF {
					name := ""
					if rec != nil {
						name = rec.Name
					}
					bad = Mismatch("chunk-no-stop", "chunk %d (records %d..%d, %v): Read after the last record = %q, %v; want io.EOF", ci2, cs.I, cs.J, ch, name, err)
					return
				}
			}
		}
		br.Close()
	})
	if v, inc := StructuralViolation("pass2", &res); v != nil || inc != "" {
		vd.V, vd.Inconcl = v, inc
		return vd
	}
	if bad != nil {
		vd.V = bad
		return vd
	}
	rd := c.RD
	if rd == 0 {
		rd = c.Procs
	}
	if near {
		x.Probe("chunk_edge_near_member_boundary")
	}
	vd.NonTrivial = near && rd > 1
	vd.Sample = map[string]interface{}{"part": c.Part, "records": len(c.Recs), "members": len(flat.Members), "chunks": c.Chunks, "iterator": c.Iter, "rd": c.RD, "steps": x.Steps}
	return vd
}

// offsetFor maps a logical position to a virtual offset, choosing the
// representation of a member end.
func offsetFor(flat *Flat, pos int64, atEnd bool) bgzf.Offset {
	for i, m := range flat.Members {
		l := int64(len(m.Payload))
		if l == 0 {
			continue
		}
		s := flat.Start[i]
		if pos >= s && pos < s+l {
			if pos == s && atEnd {
				// the same byte is also the end of the previous non-empty member
				for j := i - 1; j >= 0; j-- {
					if pl := len(flat.Members[j].Payload); pl > 0 {
						return bgzf.Offset{File: flat.Members[j].Off, Block: uint16(pl)}
					}
				}
			}
			return bgzf.Offset{File: m.Off, Block: uint16(pos - s)}
		}
	}
	// end of data
	for j := len(flat.Members) - 1; j >= 0; j-- {
		if pl := len(flat.Members[j].Payload); pl > 0 {
			return bgzf.Offset{File: flat.Members[j].Off, Block: uint16(pl)}
		}
	}
	return bgzf.Offset{}
}

func (c13) execBytes(x *Exec, c *c13Case) *Verdict {
	vd := &Verdict{}
	img := c.File.Build()
	flat, err := NewFlat(img)
	if err != nil {
		panic("c13: generated file does not parse: " + err.Error())
	}
	if len(c.Chunks) == 0 {
		return vd
	}
	var list []bgzf.Chunk
	var want []byte
	near := false
	for _, cs := range c.Chunks {
		b := offsetFor(flat, int64(cs.I), cs.BeginAtEnd)
		e := offsetFor(flat, int64(cs.J), cs.EndAtEnd)
		if cs.J == len(flat.Data) || !cs.EndAtEnd {
			// (next member, 0) form exists only if there is a next non-empty member
		}
		list = append(list, bgzf.Chunk{Begin: b, End: e})
		want = append(want, flat.Data[cs.I:cs.J]...)
		for _, o := range []bgzf.Offset{b, e} {
			if i := flat.MemberAt(o.File); i >= 0 {
				l := len(flat.Members[i].Payload)
				if int(o.Block) <= 1 || int(o.Block) >= l-1 {
					near = true
				}
			}
		}
	}
	var bad *Violation
	file := &File{X: x, Name: "f", Data: img, Chunk: c.Chunk, MaxDelay: c.Delay, EOFWithData: c.IOQ&1 != 0, ZeroReads: c.IOQ&2 != 0}
	res := x.RunSim("chunkreader", estReadSteps(len(img), c.Chunk, "read+seek", c.Delay)*(2+len(c.Chunks))+len(want)*4, func() {
		r, err := bgzf.NewReader(file.As("read+seek"), c.RD)
		if err != nil {
			bad = Mismatch("open", "NewReader = %v", err)
			return
		}
		cr, err := index.NewChunkReader(r, list)
		if err != nil {
			bad = Mismatch("newchunkreader", "NewChunkReader(%v) = %v", list, err)
			return
		}
		var got []byte
		zero := 0
		for i := 0; ; i++ {
			buf := make([]byte, c.Reads[i%len(c.Reads)])
			n, err := cr.Read(buf)
			got = append(got, buf[:n]...)
			if err == io.EOF {
				break
			}
			if err != nil {
				bad = Mismatch("chunkreader-error", "ChunkReader.Read = %d, %v after %d of %d bytes (chunks %v)", n, err, len(got), len(want), list)
				return
			}
			if n == 0 {
				zero++
				if zero > 50 {
					bad = Mismatch("chunkreader-stall", "ChunkReader makes no progress after %d of %d bytes (chunks %v)", len(got), len(want), list)
					return
				}
			} else {
				zero = 0
			}
			if len(got) > len(want)+10 {
				break
			}
		}
		if !bytes.Equal(got, want) {
			bad = Mismatch("chunkreader-data", "ChunkReader returned %d bytes, the chunks %v hold %d; first difference at %d", len(got), list, len(want), firstDiff(got, want))
			return
		}
		cr.Close()
		r.Close()
	})
	if v, inc := StructuralViolation("chunkreader", &res); v != nil || inc != "" {
		vd.V, vd.Inconcl = v, inc
		return vd
	}
	if bad != nil {
		vd.V = bad
		return vd
	}
	rd := c.RD
	if rd == 0 {
		rd = c.Procs
	}
	if near {
		x.Probe("chunk_edge_near_member_boundary")
	}
	vd.NonTrivial = near && rd > 1
	vd.Sample = map[string]interface{}{"part": c.Part, "file": c.File, "chunks": list, "reads": c.Reads, "rd": c.RD, "bytes": len(want), "steps": x.Steps}
	return vd
}

func (c13) Shrinks(ci interface{}) []interface{} {
	c := ci.(*c13Case)
	var out []interface{}
	for i := range c.Chunks {
		if len(c.Chunks) > 1 {
			n := *c
			n.Chunks = append(append([]chunkSpec(nil), c.Chunks[:i]...), c.Chunks[i+1:]...)
			out = append(out, &n)
		}
	}
	if c.Part == "bytes" {
		for i, cs := range c.Chunks {
			if cs.J-cs.I > 1 {
				n := *c
				n.Chunks = append([]chunkSpec(nil), c.Chunks...)
				n.Chunks[i].J = cs.I + (cs.J-cs.I)/2
				out = append(out, &n)
				n2 := *c
				n2.Chunks = append([]chunkSpec(nil), c.Chunks...)
				n2.Chunks[i].I = cs.I + (cs.J-cs.I)/2
				out = append(out, &n2)
			}
			if cs.BeginAtEnd || cs.EndAtEnd {
				n := *c
				n.Chunks = append([]chunkSpec(nil), c.Chunks...)
				n.Chunks[i].BeginAtEnd, n.Chunks[i].EndAtEnd = false, false
				out = append(out, &n)
			}
		}
		if len(c.Reads) > 1 {
			for i := range c.Reads {
				n := *c
				n.Reads = []int{c.Reads[i]}
				out = append(out, &n)
			}
		}
	} else {
		// drop trailing records not referenced by any chunk
		maxJ := 0
		for _, cs := range c.Chunks {
			if cs.J > maxJ {
				maxJ = cs.J
			}
		}
		if maxJ+1 < len(c.Recs) {
			n := *c
			n.Recs = c.Recs[:maxJ+1]
			out = append(out, &n)
		}
		for i, cs := range c.Chunks {
			if !cs.EndAtEnd {
				// the End as reported is the simpler form
				n := *c
				n.Chunks = append([]chunkSpec(nil), c.Chunks...)
				n.Chunks[i].EndAtEnd = true
				out = append(out, &n)
			}
		}
		if c.Iter {
			n := *c
			n.Iter = false
			out = append(out, &n)
		}
		if c.Part == "bam-split" && len(c.Split) > 1 {
			for i := range c.Split {
				n := *c
				n.Split = []int{c.Split[i]}
				if n.Split[0] == 0 {
					continue
				}
				out = append(out, &n)
			}
		}
	}
	if c.RD != 1 {
		n := *c
		n.RD = 1
		out = append(out, &n)
	}
	if c.Chunk != 0 || c.Delay != 0 || c.IOQ != 0 {
		n := *c
		n.Chunk, n.Delay, n.IOQ = 0, 0, 0
		out = append(out, &n)
	}
	return out
}
