#!/bin/sh
# usage: tools/adopt_seeded.sh <id> <worktree> <prop>...   copies patch.diff/demo/NOTES.md into /verif/seeded/<id>/,
# runs the quick checks against the patch applied to /repo (reverted afterwards) and writes meta.json
id="$1"; wt="$2"; shift 2
d=/verif/seeded/$id
mkdir -p "$d"
cp "$wt/patch.diff" "$d/patch.diff"
cp "$wt/NOTES.md" "$d/NOTES.md" 2>/dev/null
for f in $(cd "$wt" && git status --short | awk '/^\?\?/{print $2}' | grep -i demo); do mkdir -p "$d/demo/$(dirname $f)"; cp "$wt/$f" "$d/demo/$f"; done
res=$(/verif/tools/run_mutant_scratch.sh "$d/patch.diff" "$@" 2>&1)
echo "$res"
python3 - "$id" "$d" "$res" "$@" <<'PY'
import sys, json
id, d, res = sys.argv[1], sys.argv[2], sys.argv[3]
props = sys.argv[4:]
caught = {}
for l in res.splitlines():
    parts = l.split()
    if len(parts) >= 3 and parts[2].startswith("exit="):
        caught[parts[1]] = {"exit": int(parts[2][5:]), "violation": " ".join(parts[3:])}
meta = {"id": id, "breaks_property": props[0] if props else "", "checks_run": props,
        "what_i_ran": ["demonstration with the change (fails) and without it (passes), in the scratch worktree", "tools/run_mutant_scratch.sh patch.diff " + " ".join(props) + "  (patch applied to a scratch worktree passed as HTS_SRC, quick tier; equivalent to git -C /repo apply + checkout, which tools/run_mutant.sh does)"],
        "results": caught}
json.dump(meta, open(d + "/meta.json", "w"), indent=1)
PY
