#!/bin/sh
# usage: tools/run_mutant_scratch.sh <patch> <prop>...  like run_mutant.sh, but applies the patch to a scratch
# worktree and points the checks at it with HTS_SRC, so /repo is never touched (safe while sweeps run).
# The regression corpus is skipped (HTSV_NO_CORPUS=1) so that the result measures the search, not the corpus.
# Output per check: "<patch> <prop> exit=<rc> <violation line> [replay=<file>]"
patch="$1"; shift
wt=/tmp/mut-$$
git -C /repo worktree add -q "$wt" HEAD || exit 2
trap 'git -C /repo worktree remove --force "$wt"; git -C /repo worktree prune' EXIT
git -C "$wt" apply "$patch" || { echo "patch does not apply: $patch"; exit 2; }
cd ${HTSV_VERIF:-/verif}
for p in "$@"; do
  out=$(HTSV_NO_CORPUS=${HTSV_NO_CORPUS-1} HTS_SRC="$wt" ./bin/htsverif check "$p" --tier quick --no-evidence 2>&1); rc=$?
  line=$(echo "$out" | grep -E "^violation kind" | head -1)
  rp=$(echo "$out" | sed -n 's/^VIOLATION property=[A-Z0-9]* replay=//p' | head -1)
  echo "$(basename "$patch") $p exit=$rc $line${rp:+ replay=$rp}"
done
