#!/bin/sh
# usage: tools/run_mutant.sh <patch> <prop>...   applies the patch to /repo, runs the quick checks, reverts.
patch="$1"; shift
cd /repo || exit 2
if ! git diff --quiet; then echo "/repo has uncommitted changes"; exit 2; fi
git apply "$patch" || { echo "patch does not apply: $patch"; exit 2; }
trap 'git -C /repo checkout -- . ; git -C /repo clean -fdq' EXIT
cd /verif
for p in "$@"; do
  out=$(./bin/htsverif check "$p" --tier quick --no-evidence 2>&1); rc=$?
  line=$(echo "$out" | grep -E "^violation kind" | head -1)
  echo "$(basename "$patch") $p exit=$rc $line"
done
