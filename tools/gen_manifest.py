#!/usr/bin/env python3
"""Writes /verif/MANIFEST.json from the table below (kept in one place so the file stays valid)."""
import json, os

V = os.path.dirname(os.path.dirname(os.path.abspath(__file__)))

claimed = {
 "C01": ("exploration", "§3 C01",
   "Seeded search over write scripts x configurations x goroutine schedules of the real bgzf.Writer and bgzf.Reader running under a deterministic scheduler; every run is compared byte for byte with the concatenated payloads. Sampling, not proof: assurance is proportional to the runs, distinct schedules and probes reported in evidence.",
   "Trusts: the simulator's scheduling-point granularity (channel, select, sync, go, disk calls; every statement of package bgzf in a quarter of the runs), compress/gzip and compress/flate being deterministic and goroutine-free."),
 "C02": ("exploration", "§3 C02",
   "Seeded histories of Seek/Read/ReadByte/Blocked on files built by an independent BGZF encoder, checked operation by operation against a flat-stream reference model with a logical position; read-ahead worker, inflate goroutines and select order are scheduled by the tape.",
   "Trusts: the independent BGZF encoder/parser used as model (written from RFC 1952 and the SAM specification), scheduling-point granularity."),
 "C03": ("exploration", "§3 C03",
   "The C02 machinery with SetCache of every provided cache at drawn points; the same history is executed by an uncached reader in the same run and every (bytes, error, raw LastChunk) triple must be identical, besides the flat model; statement-level yields inside bgzf/cache.",
   "Trusts: as C02. One open known finding (FIFO.Get) is identified by a FIFO cache being attached; violations with LRU/Random or without that feature are still reported."),
 "C08": ("exploration", "§3 C08",
   "Each seeded write script is executed under three (wc, schedule) pairs; the bytes received by the simulated disk are parsed by an independent RFC1952/BGZF framing validator and by compress/gzip, compared across the three executions, and the EOF-marker/HasEOF clause is checked also with an injected write fault.",
   "Trusts: the independent framing validator; the 65280/65536 limits are quoted from the property statement."),
 "C09": ("fault_enumeration", "§3 C09",
   "For a fixed workload family every index of the underlying Read/Seek/Write call x fault kind (error, error after partial data) x (transient, persistent) is enumerated; each is re-run under seeded schedules with disk delays. Oracles: no deadlock/livelock (scheduler verdict, not a timeout), no library goroutine left after Close, error latching on the writer, only correct bytes and no early clean EOF on the reader.",
   "The fault-index/kind axis is exhaustive for the listed workloads; schedules are sampled. Trusts scheduling-point granularity."),
 "C12": ("fault_enumeration", "§3 C12",
   "Every crash point of every run is examined: after each underlying Write returns and after each API call returns the delivered image must parse as complete members decoding to a prefix of the data written so far; Flush+Wait and Close durability; a failed write must never be followed by further appended members.",
   "Crash points are enumerated per run (counted in evidence), schedules and scripts sampled."),
}

techniques = {
 "C01": "deterministic simulation: seeded schedules of the real writer/reader pipelines (sync-operation and, in a quarter of runs, statement granularity), simulated disk with short reads and delays, byte-exact comparison with the written data",
 "C02": "deterministic simulation: seeded Seek/Read histories under seeded read-ahead schedules, checked step by step against a flat-stream reference model",
 "C03": "deterministic simulation: cached vs uncached execution of the same history in one run, flat-stream model, statement-level scheduling points in bgzf/cache",
 "C05": "deterministic simulation of the BAM writer/reader pipelines with an independent BAM encoder as byte-level oracle",
 "C08": "deterministic simulation: same script under three (wc, schedule) pairs, independent RFC1952/BGZF framing validator, one injected write fault for the EOF-marker clause",
 "C09": "fault enumeration under deterministic simulation: every underlying call index x fault kind, seeded schedules, deadlock/leak verdicts from the scheduler",
 "C10": "fault enumeration: every truncation and every (position, value) substitution of writer-made streams, read back under seeded schedules",
 "C11": "deterministic simulation with stored-state and transport fault injection on valid encodings (container level and payload level), enumerated structural aux edits, crash/stall capture with fresh-process confirmation",
 "C12": "crash-point enumeration under deterministic simulation: the delivered image is validated after every underlying write and API call of every run",
 "C13": "deterministic simulation: sequential pass then chunk replay under seeded read-ahead schedules; flat-stream model for ChunkReader",
 "C14": "exhaustive short histories + seeded sequential and concurrent histories under statement-level scheduling, set-valued reference model, linearizability checking with porcupine",
 "C18": "deterministic simulation of k reader pipelines feeding the merger, one input failing at a drawn read, stable-merge reference model",
}

na = {
 "C04": "pure function of in-memory bin/tile tables built by Add and queried by Chunks: no schedule, clock, fault or interleaving for a simulator to vary (the 'iterate the chunks' clause is exercised by C13)",
 "C06": "SAM text format/parse is a pure function of a line and a header; sam.Reader consumes through bufio so chunking/timing is invisible",
 "C07": "header (de)serialisation and edit histories act on one in-memory object from one goroutine; no concurrency or failure in the quantifier",
 "C15": "index write/read-back is a deterministic encoder/decoder pair over binary.Read/Write on in-memory data; nothing to schedule or fault",
 "C16": "coordinate and bin arithmetic: pure integer functions",
 "C17": "merge strategies: pure functions on a slice",
 "C19": "FAI offsets: result is a function of the file bytes and the request only (bufio.Scanner / io.ReaderAt hide how bytes arrive)",
 "C20": "ITF-8/LTF-8 codecs: pure functions; stream variants use io.ReadFull so short reads cannot change the result",
}

pending = {}

def main():
    extra_path = os.path.join(V, "tools", "manifest_extra.json")
    if os.path.exists(extra_path):
        ex = json.load(open(extra_path))
        for k, v in ex.get("claimed", {}).items():
            claimed[k] = tuple(v)
        for k, v in ex.get("pending", {}).items():
            pending[k] = v
    checks = []
    for pid in sorted(claimed):
        level, ref, text, note = claimed[pid]
        checks.append({
            "property_id": pid,
            "quick_cmd": f"./bin/htsverif check {pid} --tier quick",
            "thorough_cmd": f"./bin/htsverif check {pid} --tier thorough",
            "evidence_file": f"/verif/evidence/{pid}.json",
            "replay_cmd_template": "./bin/htsverif replay {path}",
            "engine": "htssim",
            "level_claimed": {"category": level, "text": text, "design_ref": ref},
            "level_note": note,
            "technique": techniques.get(pid, "deterministic simulation with fault injection: seeded scheduler over instrumented real code, simulated disk, reference-model oracles, shrinking replay files"),
        })
    nas = [{"property_id": k, "reason": "not applicable to deterministic simulation: " + v} for k, v in sorted(na.items())]
    for k, v in sorted(pending.items()):
        if k not in claimed:
            nas.append({"property_id": k, "reason": v})
    m = {
        "version": 1,
        "setup_cmd": "./setup.sh",
        "hooks": {
            "guard": "none: no hook code lives in /repo. Instrumentation is generated from /repo's working tree at check time and handed to the Go toolchain with -overlay (tag-free); with the overlay absent the library is byte-identical to the committed sources",
            "enable": "bin/htsverif instruments /repo into /verif/.cache/instr-<hash>/ and builds /verif/harness with `go1.26.8 test -c -vet=off -overlay overlay.json`",
            "baseline_off_cmd": "cd /repo && GOFLAGS=-mod=mod GOPROXY=off GOSUMDB=off GOTOOLCHAIN=local go test -vet=off -count=1 ./...",
            "source_commits": [],
            "add_only": True,
        },
        "engines": [{
            "name": "htssim",
            "path": "/verif/cmd/htsverif, /verif/instrument, /verif/simrt, /verif/harness",
            "serves_properties": sorted(claimed),
            "kind_free_text": "deterministic simulator for Go: AST instrumentation of go/chan/select/sync/map-range/GOMAXPROCS, synctest-based single-runner scheduler driven by PRNG tapes, simulated disk with fault injection, per-property reference models, structural shrinker and replay files",
        }],
        "checks": checks,
        "not_applicable": nas,
        "notes": "Exit codes: 0 held, 1 VIOLATION (replay verified in a fresh process first), 2 build/infrastructure/nondeterminism trouble (never a VIOLATION line). VERIF_SEED selects the seed; known findings are in /verif/known_findings.json.",
    }
    json.dump(m, open(os.path.join(V, "MANIFEST.json"), "w"), indent=1)
    print("wrote MANIFEST.json with", len(checks), "checks,", len(nas), "not_applicable")

main()
