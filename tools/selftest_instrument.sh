#!/bin/sh
# Instrumenter regression: a file with every concurrency construct the rewriter knows (go statements with
# constant/variadic/method-value operands, all forms of send/receive, select with default/labels/terminating
# clauses, range over channels, embedded and package-level sync primitives, sync.OnceFunc, timers) is added to a
# scratch copy of package bgzf; the instrumented tree must build. Nothing in /repo is touched.
set -e
export GOFLAGS=-mod=mod GOPROXY=off GOSUMDB=off GOTOOLCHAIN=local
wt=/tmp/instr-selftest-$$
git -C /repo worktree add -q "$wt" HEAD
trap 'git -C /repo worktree remove --force "$wt"; git -C /repo worktree prune' EXIT
cp /verif/instrument/testdata/torture.go.in "$wt/bgzf/zz_torture.go"
sed -i 's/^go 1\.[0-9]*$/go 1.21/' "$wt/go.mod"
(cd "$wt" && go1.26.8 build ./bgzf/)
HTS_SRC="$wt" /verif/bin/htsverif build >/dev/null
echo "instrumenter selftest: ok"
