#!/bin/sh
# Runs every quick check (evidence written) and prints one line per check; exit 1 if any is not clean.
cd ${HTSV_VERIF:-/verif} || exit 2
export GOFLAGS=-mod=mod GOPROXY=off GOSUMDB=off GOTOOLCHAIN=local
rc=0
for p in C01 C02 C03 C05 C08 C09 C10 C11 C12 C13 C14 C18; do
  out=$(VERIF_SEED=${VERIF_SEED:-1} ./bin/htsverif check $p --tier quick 2>&1); r=$?
  echo "$out" | grep -E "^$p tier=|^VIOLATION|^htsverif:" | cut -c1-220
  [ $r -ne 0 ] && rc=1
done
exit $rc
