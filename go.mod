module htsverif

go 1.26
