// Package instrument rewrites the non-test sources of biogo/hts so that
// every goroutine creation, channel operation, select, sync primitive and
// map iteration goes through the simulator runtime (package simhook). The
// rewritten files never touch /repo: they are written to a scratch directory
// and handed to the Go toolchain through -overlay.
package instrument

import (
	"bytes"
	"crypto/sha256"
	"encoding/hex"
	"encoding/json"
	"fmt"
	"go/ast"
	"go/build"
	"go/importer"
	"go/parser"
	"go/printer"
	"go/token"
	"go/types"
	"io/fs"
	"os"
	"path/filepath"
	"reflect"
	"sort"
	"strconv"
	"strings"
)

const (
	Version     = "instr-v9"
	ModulePath  = "github.com/biogo/hts"
	HookPath    = ModulePath + "/simhook"
	SimsyncPath = HookPath + "/simsync"
)

// Options says what to instrument and where to put the result.
type Options struct {
	RepoDir string // root of the hts working tree to instrument
	// ModuleDir is where the harness's go.mod `replace` points (/repo). If
	// RepoDir is another copy of the tree (HTS_SRC), every Go file of that
	// copy is mapped over ModuleDir, rewritten or not.
	ModuleDir string
	SimrtDir  string   // /verif/simrt (contains simhook/, bgzf_export.go.in)
	OutDir    string   // scratch directory for rewritten files and overlay.json
	StmtPkgs  []string // import-path suffixes that get statement-level yields (R10); a "+" prefix selects the StmtYieldAll hook
}

// Stats counts what was rewritten.
type Stats struct {
	Packages int            `json:"packages"`
	Files    int            `json:"files_rewritten"`
	Rules    map[string]int `json:"rules"`
	Sites    []string       `json:"sites"`
	Hash     string         `json:"source_hash"`
}

// SourceHash hashes every non-test Go file of the tree plus the instrumenter
// version and the runtime sources; equal hash, equal instrumentation.
func SourceHash(opts Options) (string, error) {
	h := sha256.New()
	fmt.Fprintln(h, Version, strings.Join(opts.StmtPkgs, ","))
	// the instrumenter is part of the running executable: a rebuilt driver
	// never reuses output produced by an older rewriter
	if exe, err := os.Executable(); err == nil {
		if b, err := os.ReadFile(exe); err == nil {
			sum := sha256.Sum256(b)
			h.Write(sum[:])
		}
	}
	var files []string
	for _, root := range []string{opts.RepoDir, opts.SimrtDir} {
		err := filepath.WalkDir(root, func(p string, d fs.DirEntry, err error) error {
			if err != nil {
				return err
			}
			if d.IsDir() {
				n := d.Name()
				if p != root && (strings.HasPrefix(n, ".") || n == "testdata" || n == "paper") {
					return filepath.SkipDir
				}
				return nil
			}
			if (strings.HasSuffix(p, ".go") && !strings.HasSuffix(p, "_test.go")) || strings.HasSuffix(p, ".go.in") || filepath.Base(p) == "go.mod" {
				files = append(files, p)
			}
			return nil
		})
		if err != nil {
			return "", err
		}
	}
	sort.Strings(files)
	for _, f := range files {
		b, err := os.ReadFile(f)
		if err != nil {
			return "", err
		}
		fmt.Fprintf(h, "%s %d\n", f, len(b))
		h.Write(b)
	}
	return hex.EncodeToString(h.Sum(nil))[:24], nil
}

// Run instruments the tree and writes OutDir/overlay.json.
func Run(opts Options) (*Stats, error) {
	st := &Stats{Rules: map[string]int{}}
	var err error
	st.Hash, err = SourceHash(opts)
	if err != nil {
		return nil, err
	}
	if err := os.MkdirAll(opts.OutDir, 0o755); err != nil {
		return nil, err
	}
	// go/build resolves module imports relative to the working directory.
	wd, _ := os.Getwd()
	if err := os.Chdir(opts.RepoDir); err != nil {
		return nil, err
	}
	defer os.Chdir(wd)

	var dirs []string
	err = filepath.WalkDir(opts.RepoDir, func(p string, d fs.DirEntry, err error) error {
		if err != nil {
			return err
		}
		if !d.IsDir() {
			return nil
		}
		n := d.Name()
		if p != opts.RepoDir && (strings.HasPrefix(n, ".") || n == "testdata" || n == "paper" || n == "simhook") {
			return filepath.SkipDir
		}
		dirs = append(dirs, p)
		return nil
	})
	if err != nil {
		return nil, err
	}
	sort.Strings(dirs)

	if opts.ModuleDir == "" {
		opts.ModuleDir = opts.RepoDir
	}
	target := func(p string) string {
		rel, _ := filepath.Rel(opts.RepoDir, p)
		return filepath.Join(opts.ModuleDir, rel)
	}
	overlay := map[string]string{}
	fset := token.NewFileSet()
	imp := importer.ForCompiler(fset, "source", nil)
	for _, dir := range dirs {
		bp, err := build.Default.ImportDir(dir, 0)
		if err != nil {
			if _, ok := err.(*build.NoGoError); ok {
				continue
			}
			return nil, fmt.Errorf("instrument: %s: %v", dir, err)
		}
		if len(bp.GoFiles) == 0 {
			continue
		}
		if len(bp.CgoFiles) > 0 {
			return nil, fmt.Errorf("instrument: %s: cgo is not supported", dir)
		}
		rel, _ := filepath.Rel(opts.RepoDir, dir)
		ipath := ModulePath
		if rel != "." {
			ipath = ModulePath + "/" + filepath.ToSlash(rel)
		}
		var files []*ast.File
		var names []string
		needTypes := false
		for _, name := range bp.GoFiles {
			fn := filepath.Join(dir, name)
			f, err := parser.ParseFile(fset, fn, nil, parser.ParseComments)
			if err != nil {
				return nil, fmt.Errorf("instrument: %v", err)
			}
			files = append(files, f)
			names = append(names, fn)
			if opts.ModuleDir != opts.RepoDir {
				overlay[target(fn)] = fn
			}
			if interesting(f) {
				needTypes = true
			}
		}
		st.Packages++
		if !needTypes {
			continue
		}
		info := &types.Info{Types: map[ast.Expr]types.TypeAndValue{}, Uses: map[*ast.Ident]types.Object{}}
		var terrs []error
		conf := types.Config{Importer: imp, Error: func(e error) { terrs = append(terrs, e) }}
		conf.Check(ipath, fset, files, info)
		stmtYields := false
		stmtHook := "StmtYield"
		for _, sfx := range opts.StmtPkgs {
			hook := "StmtYield"
			if strings.HasPrefix(sfx, "+") {
				sfx, hook = sfx[1:], "StmtYieldAll"
			}
			if strings.HasSuffix(ipath, sfx) {
				stmtYields = true
				stmtHook = hook
			}
		}
		for i, f := range files {
			rw := &rewriter{fset: fset, info: info, pkg: bp.Name, file: filepath.Base(names[i]), st: st, stmtYields: stmtYields, stmtHook: stmtHook, terrs: terrs}
			changed, err := rw.file_(f)
			if err != nil {
				return nil, fmt.Errorf("instrument: %s: %v", names[i], err)
			}
			if !changed {
				continue
			}
			src, err := os.ReadFile(names[i])
			if err != nil {
				return nil, err
			}
			var buf bytes.Buffer
			buf.WriteString(buildHeader(src))
			f.Comments = nil
			stripDocs(f)
			if err := (&printer.Config{Mode: printer.UseSpaces | printer.TabIndent, Tabwidth: 8}).Fprint(&buf, fset, f); err != nil {
				return nil, fmt.Errorf("instrument: print %s: %v", names[i], err)
			}
			out := filepath.Join(opts.OutDir, "src", rel, filepath.Base(names[i]))
			if err := os.MkdirAll(filepath.Dir(out), 0o755); err != nil {
				return nil, err
			}
			if err := os.WriteFile(out, buf.Bytes(), 0o644); err != nil {
				return nil, err
			}
			overlay[target(names[i])] = out
			st.Files++
		}
	}

	// Mount the runtime and the bgzf export file.
	for _, sub := range []string{"simhook", "simhook/simsync"} {
		ents, err := os.ReadDir(filepath.Join(opts.SimrtDir, sub))
		if err != nil {
			return nil, err
		}
		for _, e := range ents {
			if e.IsDir() || !strings.HasSuffix(e.Name(), ".go") || strings.HasSuffix(e.Name(), "_test.go") {
				continue
			}
			overlay[filepath.Join(opts.ModuleDir, sub, e.Name())] = filepath.Join(opts.SimrtDir, sub, e.Name())
		}
	}
	ents, _ := os.ReadDir(opts.SimrtDir)
	for _, e := range ents {
		// <pkgdir with / as __>__<name>.go.in  e.g. bgzf__zz_verif_export.go.in
		if !strings.HasSuffix(e.Name(), ".go.in") {
			continue
		}
		parts := strings.Split(strings.TrimSuffix(e.Name(), ".in"), "__")
		tgt := filepath.Join(append([]string{opts.ModuleDir}, parts...)...)
		overlay[tgt] = filepath.Join(opts.SimrtDir, e.Name())
	}

	sort.Strings(st.Sites)
	ob, _ := json.MarshalIndent(map[string]interface{}{"Replace": overlay}, "", " ")
	if err := os.WriteFile(filepath.Join(opts.OutDir, "overlay.json"), ob, 0o644); err != nil {
		return nil, err
	}
	sb, _ := json.MarshalIndent(st, "", " ")
	if err := os.WriteFile(filepath.Join(opts.OutDir, "instrument.json"), sb, 0o644); err != nil {
		return nil, err
	}
	return st, nil
}

// buildHeader keeps build constraints of the original file.
func buildHeader(src []byte) string {
	var b strings.Builder
	for _, line := range strings.Split(string(src), "\n") {
		t := strings.TrimSpace(line)
		if strings.HasPrefix(t, "package ") {
			break
		}
		if strings.HasPrefix(t, "//go:build") || strings.HasPrefix(t, "// +build") {
			b.WriteString(t + "\n")
		}
	}
	if b.Len() > 0 {
		b.WriteString("\n")
	}
	return b.String()
}

func stripDocs(f *ast.File) {
	f.Doc = nil
	ast.Inspect(f, func(n ast.Node) bool {
		switch x := n.(type) {
		case *ast.FuncDecl:
			x.Doc = nil
		case *ast.GenDecl:
			x.Doc = nil
		case *ast.Field:
			x.Doc, x.Comment = nil, nil
		case *ast.ValueSpec:
			x.Doc, x.Comment = nil, nil
		case *ast.TypeSpec:
			x.Doc, x.Comment = nil, nil
		case *ast.ImportSpec:
			x.Doc, x.Comment = nil, nil
		}
		return true
	})
}

// interesting reports whether a file contains anything the rewriter acts on.
func interesting(f *ast.File) bool {
	found := false
	for _, im := range f.Imports {
		p, _ := strconv.Unquote(im.Path.Value)
		if p == "sync" || p == "runtime" || p == "time" {
			found = true
		}
	}
	ast.Inspect(f, func(n ast.Node) bool {
		switch x := n.(type) {
		case *ast.GoStmt, *ast.SendStmt, *ast.SelectStmt, *ast.RangeStmt:
			found = true
		case *ast.UnaryExpr:
			if x.Op == token.ARROW {
				found = true
			}
		case *ast.CallExpr:
			if id, ok := x.Fun.(*ast.Ident); ok && id.Name == "close" {
				found = true
			}
		}
		return !found
	})
	return found
}

// stmtSkip lists byte-pump methods that get no statement-level yields: the
// flate decompressor calls them once per compressed byte, which multiplies
// the step count of a run by the file size without adding interleavings
// (they touch only the decompressor that the calling goroutine owns).
var stmtSkip = map[string]bool{
	"bgzf.(*countReader).Read": true, "bgzf.(*countReader).ReadByte": true, "bgzf.(*countReader).offset": true,
	"bgzf.(*buffer).Read": true, "bgzf.(*buffer).ReadByte": true, "bgzf.(*buffer).hasData": true,
	"bgzf.(*decompressor).Read": true, "bgzf.(*decompressor).ReadByte": true,
}

type rewriter struct {
	fset       *token.FileSet
	info       *types.Info
	pkg, file  string
	st         *Stats
	stmtYields bool
	stmtHook   string
	terrs      []error

	fn      string // enclosing function
	changed bool
	tmp     int
	err     error
}

func (rw *rewriter) fail(n ast.Node, format string, a ...interface{}) {
	if rw.err == nil {
		rw.err = fmt.Errorf("%s: %s", rw.fset.Position(n.Pos()), fmt.Sprintf(format, a...))
	}
}

func (rw *rewriter) site(n ast.Node, op string, e ast.Expr) ast.Expr {
	pos := rw.fset.Position(n.Pos())
	s := rw.pkg + "." + rw.fn + ":" + op
	if e != nil {
		s += ":" + types.ExprString(e)
	}
	s += "@" + rw.file + ":" + strconv.Itoa(pos.Line)
	rw.st.Sites = append(rw.st.Sites, s)
	return &ast.BasicLit{Kind: token.STRING, Value: strconv.Quote(s)}
}

func hook(name string, args ...ast.Expr) *ast.CallExpr {
	return &ast.CallExpr{Fun: &ast.SelectorExpr{X: ast.NewIdent("simhook"), Sel: ast.NewIdent(name)}, Args: args}
}

func (rw *rewriter) count(rule string) { rw.st.Rules[rule]++; rw.changed = true }

func (rw *rewriter) file_(f *ast.File) (bool, error) {
	syncName, runtimeName, timeName := "", "", ""
	for _, im := range f.Imports {
		p, _ := strconv.Unquote(im.Path.Value)
		name := filepath.Base(p)
		if im.Name != nil {
			name = im.Name.Name
		}
		switch p {
		case "sync":
			syncName = name
			im.Path.Value = strconv.Quote(SimsyncPath)
			im.Name = ast.NewIdent(name)
			rw.count("R8.sync-import")
		case "runtime":
			runtimeName = name
		case "time":
			timeName = name
		}
	}
	if syncName == "_" || syncName == "." {
		return false, fmt.Errorf("unsupported import form of package sync")
	}
	supported := map[string]bool{"Mutex": true, "RWMutex": true, "WaitGroup": true, "Once": true, "Cond": true, "NewCond": true, "Pool": true, "Map": true, "Locker": true,
		"OnceFunc": true, "OnceValue": true, "OnceValues": true}
	usesRuntimeOther, usesTimeOther := false, false
	ast.Inspect(f, func(n ast.Node) bool {
		if se, ok := n.(*ast.SelectorExpr); ok {
			if id, ok := se.X.(*ast.Ident); ok {
				if _, isPkg := rw.info.Uses[id].(*types.PkgName); isPkg {
					switch id.Name {
					case syncName:
						if !supported[se.Sel.Name] {
							rw.fail(se, "sync.%s is not supported by the simulator runtime", se.Sel.Name)
						}
					case runtimeName:
						if se.Sel.Name != "GOMAXPROCS" && se.Sel.Name != "NumCPU" {
							usesRuntimeOther = true
						}
					case timeName:
						if se.Sel.Name != "Sleep" {
							usesTimeOther = true
						}
						switch se.Sel.Name {
						case "AfterFunc":
							// its callback runs on a goroutine the scheduler does not own
							rw.fail(se, "time.%s is not supported by the simulator runtime", se.Sel.Name)
						}
					}
				}
			}
		}
		return true
	})
	if rw.err != nil {
		return false, rw.err
	}
	rtCalls, sleepCalls := 0, 0
	for _, d := range f.Decls {
		fd, ok := d.(*ast.FuncDecl)
		if !ok {
			// package-level initialisers may contain function literals
			rw.fn = "init"
			rw.walk(reflect.ValueOf(d), &rtCalls, &sleepCalls, runtimeName, timeName)
			continue
		}
		rw.fn = fd.Name.Name
		if fd.Recv != nil && len(fd.Recv.List) == 1 {
			rw.fn = "(" + types.ExprString(fd.Recv.List[0].Type) + ")." + fd.Name.Name
		}
		if fd.Body != nil {
			rw.walk(reflect.ValueOf(fd.Body), &rtCalls, &sleepCalls, runtimeName, timeName)
			if rw.stmtYields && !stmtSkip[rw.pkg+"."+rw.fn] {
				rw.addYields(fd.Body)
			}
		}
	}
	if rw.err != nil {
		return false, rw.err
	}
	if !rw.changed {
		return false, nil
	}
	// imports: add simhook; keep runtime/time referenced.
	addImport(f, "simhook", HookPath)
	if runtimeName != "" && rtCalls > 0 && !usesRuntimeOther {
		f.Decls = append(f.Decls, keepAlive(runtimeName, "NumCPU"))
	}
	if timeName != "" && sleepCalls > 0 && !usesTimeOther {
		f.Decls = append(f.Decls, keepAlive(timeName, "Now"))
	}
	f.Decls = append(f.Decls, &ast.GenDecl{Tok: token.VAR, Specs: []ast.Spec{&ast.ValueSpec{
		Names: []*ast.Ident{ast.NewIdent("_")}, Values: []ast.Expr{&ast.SelectorExpr{X: ast.NewIdent("simhook"), Sel: ast.NewIdent("Active")}}}}})
	return true, nil
}

func keepAlive(pkg, sym string) ast.Decl {
	return &ast.GenDecl{Tok: token.VAR, Specs: []ast.Spec{&ast.ValueSpec{
		Names: []*ast.Ident{ast.NewIdent("_")}, Values: []ast.Expr{&ast.SelectorExpr{X: ast.NewIdent(pkg), Sel: ast.NewIdent(sym)}}}}}
}

func addImport(f *ast.File, name, path string) {
	spec := &ast.ImportSpec{Name: ast.NewIdent(name), Path: &ast.BasicLit{Kind: token.STRING, Value: strconv.Quote(path)}}
	for _, d := range f.Decls {
		if gd, ok := d.(*ast.GenDecl); ok && gd.Tok == token.IMPORT {
			gd.Specs = append(gd.Specs, spec)
			if !gd.Lparen.IsValid() {
				gd.Lparen = gd.Pos()
				gd.Rparen = gd.End()
			}
			f.Imports = append(f.Imports, spec)
			return
		}
	}
	gd := &ast.GenDecl{Tok: token.IMPORT, Specs: []ast.Spec{spec}}
	f.Decls = append([]ast.Decl{gd}, f.Decls...)
	f.Imports = append(f.Imports, spec)
}

var (
	exprType = reflect.TypeOf((*ast.Expr)(nil)).Elem()
	stmtType = reflect.TypeOf((*ast.Stmt)(nil)).Elem()
)

// walk descends through the AST by reflection, replacing statements
// (pre-order) and expressions (post-order).
func (rw *rewriter) walk(v reflect.Value, rt, sl *int, runtimeName, timeName string) {
	if rw.err != nil {
		return
	}
	switch v.Kind() {
	case reflect.Ptr:
		if v.IsNil() {
			return
		}
		if _, isObj := v.Interface().(*ast.Object); isObj {
			return
		}
		if _, isScope := v.Interface().(*ast.Scope); isScope {
			return
		}
		rw.walk(v.Elem(), rt, sl, runtimeName, timeName)
	case reflect.Interface:
		if v.IsNil() {
			return
		}
		if v.Type() == stmtType && v.CanSet() {
			if ns := rw.stmt(v.Interface().(ast.Stmt)); ns != nil {
				v.Set(reflect.ValueOf(ns))
			}
		}
		rw.walk(v.Elem(), rt, sl, runtimeName, timeName)
		if v.Type() == exprType && v.CanSet() {
			if ne := rw.expr(v.Interface().(ast.Expr), rt, sl, runtimeName, timeName); ne != nil {
				v.Set(reflect.ValueOf(ne))
			}
		}
	case reflect.Struct:
		for i := 0; i < v.NumField(); i++ {
			rw.walk(v.Field(i), rt, sl, runtimeName, timeName)
		}
	case reflect.Slice:
		for i := 0; i < v.Len(); i++ {
			rw.walk(v.Index(i), rt, sl, runtimeName, timeName)
		}
	}
}

func (rw *rewriter) tmpName(prefix string) string {
	rw.tmp++
	return "_sim" + prefix + strconv.Itoa(rw.tmp)
}

func simpleExpr(e ast.Expr) bool {
	switch x := e.(type) {
	case *ast.Ident:
		return true
	case *ast.SelectorExpr:
		return simpleExpr(x.X)
	case *ast.ParenExpr:
		return simpleExpr(x.X)
	case *ast.StarExpr:
		return simpleExpr(x.X)
	}
	return false
}

func (rw *rewriter) typeOf(e ast.Expr) types.Type {
	tv, ok := rw.info.Types[e]
	if !ok || tv.Type == nil {
		return nil
	}
	return tv.Type
}

// stmt returns a replacement for s or nil.
func (rw *rewriter) stmt(s ast.Stmt) ast.Stmt {
	switch x := s.(type) {
	case *ast.GoStmt:
		rw.count("R1.go")
		call := x.Call
		site := rw.site(x, "go", call.Fun)
		if fl, ok := call.Fun.(*ast.FuncLit); ok && len(call.Args) == 0 {
			return &ast.ExprStmt{X: hook("Go", site, fl)}
		}
		if id, ok := call.Fun.(*ast.Ident); ok {
			if _, isB := rw.info.Uses[id].(*types.Builtin); isB {
				rw.fail(x, "go statement on builtin %s", id.Name)
				return nil
			}
		}
		var list []ast.Stmt
		fname := rw.tmpName("F")
		list = append(list, &ast.AssignStmt{Lhs: []ast.Expr{ast.NewIdent(fname)}, Tok: token.DEFINE, Rhs: []ast.Expr{call.Fun}})
		inner := &ast.CallExpr{Fun: ast.NewIdent(fname), Ellipsis: call.Ellipsis}
		for _, a := range call.Args {
			if bl, ok := a.(*ast.BasicLit); ok {
				inner.Args = append(inner.Args, bl)
				continue
			}
			if id, ok := a.(*ast.Ident); ok && (id.Name == "nil" || id.Name == "true" || id.Name == "false") {
				inner.Args = append(inner.Args, id)
				continue
			}
			if tv, ok := rw.info.Types[a]; ok && tv.Value != nil {
				// a constant expression: evaluating it later changes nothing,
				// and a temporary would fix its default type
				inner.Args = append(inner.Args, a)
				continue
			}
			an := rw.tmpName("A")
			list = append(list, &ast.AssignStmt{Lhs: []ast.Expr{ast.NewIdent(an)}, Tok: token.DEFINE, Rhs: []ast.Expr{a}})
			inner.Args = append(inner.Args, ast.NewIdent(an))
		}
		fl := &ast.FuncLit{Type: &ast.FuncType{Params: &ast.FieldList{}}, Body: &ast.BlockStmt{List: []ast.Stmt{&ast.ExprStmt{X: inner}}}}
		list = append(list, &ast.ExprStmt{X: hook("Go", site, fl)})
		return &ast.BlockStmt{List: list}

	case *ast.SendStmt:
		rw.count("R2.send")
		return &ast.ExprStmt{X: hook("Send", x.Chan, x.Value, rw.site(x, "send", x.Chan))}

	case *ast.AssignStmt:
		if len(x.Lhs) == 2 && len(x.Rhs) == 1 {
			if u, ok := x.Rhs[0].(*ast.UnaryExpr); ok && u.Op == token.ARROW {
				rw.count("R3.recv2")
				x.Rhs[0] = hook("Recv2", u.X, rw.site(u, "recv", u.X))
			}
		}
		return nil

	case *ast.DeclStmt:
		if gd, ok := x.Decl.(*ast.GenDecl); ok && gd.Tok == token.VAR {
			for _, sp := range gd.Specs {
				vs := sp.(*ast.ValueSpec)
				if len(vs.Names) == 2 && len(vs.Values) == 1 {
					if u, ok := vs.Values[0].(*ast.UnaryExpr); ok && u.Op == token.ARROW {
						rw.count("R3.recv2")
						vs.Values[0] = hook("Recv2", u.X, rw.site(u, "recv", u.X))
					}
				}
			}
		}
		return nil

	case *ast.LabeledStmt:
		if sel, ok := x.Stmt.(*ast.SelectStmt); ok {
			// the label moves to the generated switch, so that `break L`
			// keeps leaving the statement
			if blk, ok := rw.selectStmt(sel).(*ast.BlockStmt); ok && len(blk.List) > 0 {
				n := len(blk.List) - 1
				blk.List[n] = &ast.LabeledStmt{Label: x.Label, Stmt: blk.List[n]}
				return blk
			}
			rw.fail(x, "labelled select statement could not be rewritten")
		}
		if r, ok := x.Stmt.(*ast.RangeStmt); ok {
			if t := rw.typeOf(r.X); t != nil {
				if _, isMap := t.Underlying().(*types.Map); isMap {
					// the replacement is itself a for statement, label stays valid
				}
			}
		}
		return nil

	case *ast.SelectStmt:
		return rw.selectStmt(x)

	case *ast.RangeStmt:
		t := rw.typeOf(x.X)
		if t == nil {
			rw.fail(x, "cannot determine the type of range expression %s (type errors: %v)", types.ExprString(x.X), rw.terrs)
			return nil
		}
		switch t.Underlying().(type) {
		case *types.Chan:
			return rw.rangeChan(x)
		case *types.Map:
			return rw.rangeMap(x)
		}
		if tp, ok := t.Underlying().(*types.TypeParam); ok {
			rw.fail(x, "range over type parameter %s", tp)
		}
		return nil
	}
	return nil
}

func (rw *rewriter) selectStmt(x *ast.SelectStmt) ast.Stmt {
	rw.count("R6.select")
	var pre []ast.Stmt
	var clauses []ast.Stmt
	var caseArgs []ast.Expr
	hasDefault := false
	idx := 0
	for _, c := range x.Body.List {
		cc := c.(*ast.CommClause)
		if cc.Comm == nil {
			hasDefault = true
			clauses = append(clauses, &ast.CaseClause{List: []ast.Expr{&ast.UnaryExpr{Op: token.SUB, X: &ast.BasicLit{Kind: token.INT, Value: "1"}}}, Body: cc.Body})
			continue
		}
		cn := rw.tmpName("C")
		var body []ast.Stmt
		switch cm := cc.Comm.(type) {
		case *ast.SendStmt:
			pre = append(pre, &ast.AssignStmt{Lhs: []ast.Expr{ast.NewIdent(cn)}, Tok: token.DEFINE, Rhs: []ast.Expr{hook("SendCase", cm.Chan, cm.Value)}})
		case *ast.ExprStmt:
			u, ok := unparen(cm.X).(*ast.UnaryExpr)
			if !ok || u.Op != token.ARROW {
				rw.fail(cm, "unexpected select clause")
				return nil
			}
			pre = append(pre, &ast.AssignStmt{Lhs: []ast.Expr{ast.NewIdent(cn)}, Tok: token.DEFINE, Rhs: []ast.Expr{hook("RecvCase", u.X)}})
		case *ast.AssignStmt:
			u, ok := unparen(cm.Rhs[0]).(*ast.UnaryExpr)
			if !ok || u.Op != token.ARROW || len(cm.Rhs) != 1 {
				rw.fail(cm, "unexpected select clause")
				return nil
			}
			pre = append(pre, &ast.AssignStmt{Lhs: []ast.Expr{ast.NewIdent(cn)}, Tok: token.DEFINE, Rhs: []ast.Expr{hook("RecvCase", u.X)}})
			val := &ast.CallExpr{Fun: &ast.SelectorExpr{X: ast.NewIdent(cn), Sel: ast.NewIdent("Val")}}
			okc := &ast.CallExpr{Fun: &ast.SelectorExpr{X: ast.NewIdent(cn), Sel: ast.NewIdent("Ok")}}
			as := &ast.AssignStmt{Lhs: cm.Lhs, Tok: cm.Tok, Rhs: []ast.Expr{val}}
			if len(cm.Lhs) == 2 {
				as.Rhs = append(as.Rhs, okc)
			}
			body = append(body, as)
			if cm.Tok == token.DEFINE {
				// keep defined-but-unused variables legal
				for _, l := range cm.Lhs {
					if id, ok := l.(*ast.Ident); ok && id.Name != "_" {
						body = append(body, &ast.AssignStmt{Lhs: []ast.Expr{ast.NewIdent("_")}, Tok: token.ASSIGN, Rhs: []ast.Expr{ast.NewIdent(id.Name)}})
					}
				}
			}
		default:
			rw.fail(cc, "unexpected select clause")
			return nil
		}
		caseArgs = append(caseArgs, ast.NewIdent(cn))
		clauses = append(clauses, &ast.CaseClause{List: []ast.Expr{&ast.BasicLit{Kind: token.INT, Value: strconv.Itoa(idx)}}, Body: append(body, cc.Body...)})
		idx++
	}
	def := ast.NewIdent("false")
	if hasDefault {
		def = ast.NewIdent("true")
	}
	args := append([]ast.Expr{rw.site(x, "select", nil), def}, caseArgs...)
	// a default clause keeps the rewritten statement terminating whenever the
	// select was (all clauses return): "missing return" otherwise
	clauses = append(clauses, &ast.CaseClause{Body: []ast.Stmt{&ast.ExprStmt{X: &ast.CallExpr{Fun: ast.NewIdent("panic"),
		Args: []ast.Expr{&ast.BasicLit{Kind: token.STRING, Value: strconv.Quote("simhook: select chose an unknown case")}}}}}})
	sw := &ast.SwitchStmt{Tag: hook("Select", args...), Body: &ast.BlockStmt{List: clauses}}
	return &ast.BlockStmt{List: append(pre, sw)}
}

func unparen(e ast.Expr) ast.Expr {
	for {
		p, ok := e.(*ast.ParenExpr)
		if !ok {
			return e
		}
		e = p.X
	}
}

func (rw *rewriter) rangeChan(x *ast.RangeStmt) ast.Stmt {
	rw.count("R5.range-chan")
	if !simpleExpr(x.X) {
		rw.fail(x, "range over a channel expression with side effects is not supported: %s", types.ExprString(x.X))
		return nil
	}
	okn := rw.tmpName("Ok")
	call := hook("Recv2", x.X, rw.site(x, "range", x.X))
	var head []ast.Stmt
	switch {
	case x.Key == nil:
		head = append(head, &ast.AssignStmt{Lhs: []ast.Expr{ast.NewIdent("_"), ast.NewIdent(okn)}, Tok: token.DEFINE, Rhs: []ast.Expr{call}})
	case x.Tok == token.DEFINE:
		head = append(head, &ast.AssignStmt{Lhs: []ast.Expr{x.Key, ast.NewIdent(okn)}, Tok: token.DEFINE, Rhs: []ast.Expr{call}})
		if id, ok := x.Key.(*ast.Ident); ok && id.Name != "_" {
			head = append(head, &ast.AssignStmt{Lhs: []ast.Expr{ast.NewIdent("_")}, Tok: token.ASSIGN, Rhs: []ast.Expr{ast.NewIdent(id.Name)}})
		}
	default:
		head = append(head,
			&ast.DeclStmt{Decl: &ast.GenDecl{Tok: token.VAR, Specs: []ast.Spec{&ast.ValueSpec{Names: []*ast.Ident{ast.NewIdent(okn)}, Type: ast.NewIdent("bool")}}}},
			&ast.AssignStmt{Lhs: []ast.Expr{x.Key, ast.NewIdent(okn)}, Tok: token.ASSIGN, Rhs: []ast.Expr{call}})
	}
	head = append(head, &ast.IfStmt{Cond: &ast.UnaryExpr{Op: token.NOT, X: ast.NewIdent(okn)}, Body: &ast.BlockStmt{List: []ast.Stmt{&ast.BranchStmt{Tok: token.BREAK}}}})
	x.Body.List = append(head, x.Body.List...)
	return &ast.ForStmt{Body: x.Body}
}

func (rw *rewriter) rangeMap(x *ast.RangeStmt) ast.Stmt {
	rw.count("R7.range-map")
	if !simpleExpr(x.X) {
		rw.fail(x, "range over a map expression with side effects is not supported: %s", types.ExprString(x.X))
		return nil
	}
	if x.Tok == token.ASSIGN {
		rw.fail(x, "range over a map with '=' is not supported")
		return nil
	}
	keyName := rw.tmpName("K")
	if id, ok := x.Key.(*ast.Ident); ok && id.Name != "_" {
		keyName = id.Name
	}
	okn := rw.tmpName("Ok")
	var val ast.Expr = ast.NewIdent("_")
	var extra []ast.Stmt
	if id, ok := x.Value.(*ast.Ident); ok && id.Name != "_" {
		val = ast.NewIdent(id.Name)
		extra = append(extra, &ast.AssignStmt{Lhs: []ast.Expr{ast.NewIdent("_")}, Tok: token.ASSIGN, Rhs: []ast.Expr{ast.NewIdent(id.Name)}})
	}
	head := []ast.Stmt{
		&ast.AssignStmt{Lhs: []ast.Expr{val, ast.NewIdent(okn)}, Tok: token.DEFINE, Rhs: []ast.Expr{&ast.IndexExpr{X: x.X, Index: ast.NewIdent(keyName)}}},
		&ast.IfStmt{Cond: &ast.UnaryExpr{Op: token.NOT, X: ast.NewIdent(okn)}, Body: &ast.BlockStmt{List: []ast.Stmt{&ast.BranchStmt{Tok: token.CONTINUE}}}},
	}
	head = append(head, extra...)
	x.Body.List = append(head, x.Body.List...)
	return &ast.RangeStmt{
		Key: ast.NewIdent("_"), Value: ast.NewIdent(keyName), Tok: token.DEFINE,
		X:    hook("MapKeys", x.X, rw.site(x, "rangemap", x.X)),
		Body: x.Body,
	}
}

// expr returns a replacement for e or nil.
func (rw *rewriter) expr(e ast.Expr, rt, sl *int, runtimeName, timeName string) ast.Expr {
	switch x := e.(type) {
	case *ast.UnaryExpr:
		if x.Op == token.ARROW {
			rw.count("R3.recv")
			return hook("Recv", x.X, rw.site(x, "recv", x.X))
		}
	case *ast.CallExpr:
		if id, ok := x.Fun.(*ast.Ident); ok && id.Name == "close" && len(x.Args) == 1 {
			if _, isB := rw.info.Uses[id].(*types.Builtin); isB {
				rw.count("R4.close")
				return hook("Close", x.Args[0], rw.site(x, "close", x.Args[0]))
			}
		}
		if se, ok := x.Fun.(*ast.SelectorExpr); ok {
			if id, ok := se.X.(*ast.Ident); ok {
				if _, isPkg := rw.info.Uses[id].(*types.PkgName); isPkg {
					if id.Name == runtimeName && (se.Sel.Name == "GOMAXPROCS" || se.Sel.Name == "NumCPU") {
						rw.count("R9.runtime")
						*rt++
						return hook(se.Sel.Name, x.Args...)
					}
					if id.Name == timeName && se.Sel.Name == "Sleep" && len(x.Args) == 1 {
						rw.count("R9.sleep")
						*sl++
						return hook("Sleep", &ast.CallExpr{Fun: ast.NewIdent("int64"), Args: []ast.Expr{x.Args[0]}}, rw.site(x, "sleep", nil))
					}
				}
			}
		}
	}
	return nil
}

// addYields inserts a statement-level scheduling point before every
// statement of every statement list in body (rule R10).
func (rw *rewriter) addYields(body *ast.BlockStmt) {
	var do func(list []ast.Stmt) []ast.Stmt
	do = func(list []ast.Stmt) []ast.Stmt {
		var out []ast.Stmt
		for _, s := range list {
			if _, isEmpty := s.(*ast.EmptyStmt); !isEmpty {
				rw.count("R10.stmt-yield")
				out = append(out, &ast.ExprStmt{X: hook(rw.stmtHook, rw.site(s, "stmt", nil))})
			}
			out = append(out, s)
		}
		return out
	}
	skip := map[*ast.BlockStmt]bool{} // bodies of switch/select hold clauses, not statements
	ast.Inspect(body, func(n ast.Node) bool {
		switch x := n.(type) {
		case *ast.SwitchStmt:
			skip[x.Body] = true
		case *ast.TypeSwitchStmt:
			skip[x.Body] = true
		case *ast.SelectStmt:
			skip[x.Body] = true
		case *ast.BlockStmt:
			if skip[x] {
				return true
			}
			x.List = do(x.List)
		case *ast.CaseClause:
			x.Body = do(x.Body)
		case *ast.CommClause:
			x.Body = do(x.Body)
		}
		return true
	})
}
